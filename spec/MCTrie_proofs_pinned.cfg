CONSTANTS
  D = 3
  MaxEpoch = 2
  MaxLeaves = 5
  Export = FALSE
  MaxU = 3
  MaxI = 2
  PrevEpochChecked = TRUE
  ChildPrefixChecked = FALSE
  PrefixFreeChecked = TRUE
  TopLabelChecked = TRUE
INIT Init
NEXT Next
INVARIANTS MemComplete NonMemComplete MemSound NonMemSound
CHECK_DEADLOCK FALSE
