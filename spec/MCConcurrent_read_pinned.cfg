CONSTANTS
  Publishers = {"A", "B"}
  Readers = {"r"}
  RemoteReaders = {"r"}
  LockFreeReaders = {}
  Keys <- KeysSeq
  HasCache = TRUE
  MaxFaults = 0
  InitEpochs = 2
  ReaderLag = 2
  RecheckEpochAfterBegin = TRUE
  FlagHeldThroughDbWrite = TRUE
  RootHashBeforeCommit = TRUE
  PrevEpochChecked = FALSE
  ReadersSeePendingEpoch = FALSE
  RollbackReleasesFlag = TRUE
  ExportSched = FALSE
VIEW View
INIT MCInit
NEXT MCNext
INVARIANTS AnswersArePublished EpochsDistinct FinalEqualsSerial
CHECK_DEADLOCK FALSE
