CONSTANTS
  Labels = {"a", "b"}
  Values = {"x", "y"}
  MaxEpoch = 3
  MaxBatch = 2
  MaxPerEpoch = 2
  Export = TRUE
INIT MCInit
NEXT MCNext
VIEW View
INVARIANTS TypeOK EpochCountsEffective LeafShape LookupSoundOnHonest
PROPERTY CommittedOnlyGrows
CHECK_DEADLOCK FALSE
