//! C08 (i): the real get_marker_versions / lookup marker recorded for TLC (TraceMarkers.tla).
use crate::common::*;
use serde_json::json;

pub fn main_markers(args: &[String]) {
    let out = arg_val(args, "--out").expect("--out");
    let max_e: u64 = arg_val(args, "--max").map(|s| s.parse().unwrap()).unwrap_or(40);
    let seed: u64 = arg_val(args, "--seed").map(|s| s.parse().unwrap()).unwrap_or(1);
    let files: u64 = arg_val(args, "--files").map(|s| s.parse().unwrap()).unwrap_or(8);
    std::fs::create_dir_all(&out).unwrap();
    let mut bufs: Vec<Vec<String>> = (0..files).map(|_| vec![]).collect();
    let mut n_events = 0u64;
    for e in 1..=max_e {
        let mut rows = vec![];
        for n in 1..=e {
            for s in 1..=n {
                let (p, f) = akd_core::utils::get_marker_versions(s, n, e);
                rows.push(json!([s, n, p, f]));
            }
        }
        bufs[(e % files) as usize].push(json!({"ev": "mv", "E": e, "rows": rows}).to_string());
        n_events += 1;
    }
    // sampled large values (below 2^29 so that every intermediate 2^i stays within TLC 32-bit integers)
    use rand::{Rng, SeedableRng};
    let mut rng = rand::rngs::StdRng::seed_from_u64(seed);
    let mut rows = vec![];
    for _ in 0..400 {
        let e: u64 = rng.random_range(1..(1u64 << 29));
        let n: u64 = rng.random_range(1..=e);
        let s: u64 = rng.random_range(1..=n);
        let (p, f) = akd_core::utils::get_marker_versions(s, n, e);
        rows.push(json!([s, n, e, p, f]));
    }
    bufs[0].push(json!({"ev": "mv_big", "rows": rows}).to_string());
    for (i, b) in bufs.iter().enumerate() {
        write_lines(&format!("{out}/trace_{i}.ndjson"), b);
    }
    println!("{}", json!({"behaviours": n_events, "events": n_events + 1}));
}
