----------------------------- MODULE AkdLabels -----------------------------
(***************************************************************************)
(* Node labels as bit strings (sequences over {0,1}) and the operations    *)
(* the tree code performs on them (akd_core/src/types/node_label/mod.rs,   *)
(* AzksElementSet in akd/src/append_only_zks.rs).  This module IS the      *)
(* "bit-string meaning" that C17 refers to; the implementation's byte      *)
(* arithmetic is bound to it by trace validation (TraceLabels).            *)
(***************************************************************************)
EXTENDS Naturals, Sequences, FiniteSets

Bit == {0, 1}

BitStrings(n) == UNION { [1..k -> Bit] : k \in 0..n }

IsPrefixOf(p, q) == Len(p) <= Len(q) /\ \A i \in 1..Len(p) : p[i] = q[i]

Prefix(q, n) == IF n >= Len(q) THEN q ELSE SubSeq(q, 1, n)

(* number of leading positions on which p and q agree *)
RECURSIVE AgreeLen(_, _, _)
AgreeLen(p, q, i) ==
  IF i < Len(p) /\ i < Len(q) /\ p[i+1] = q[i+1] THEN AgreeLen(p, q, i + 1) ELSE i

Lcp(p, q) == Prefix(p, AgreeLen(p, q, 0))

(* PrefixOrdering of q with respect to p: "L" (WithZero), "R" (WithOne), "I" (Invalid) *)
Dir(p, q) ==
  IF Len(p) >= Len(q) \/ ~IsPrefixOf(p, q) THEN "I"
  ELSE IF q[Len(p) + 1] = 0 THEN "L" ELSE "R"

(* the implementation's Ord: by length, then lexicographically by bits *)
RECURSIVE LexLess(_, _, _)
LexLess(p, q, i) ==
  IF i > Len(p) THEN FALSE
  ELSE IF p[i] # q[i] THEN p[i] < q[i]
  ELSE LexLess(p, q, i + 1)
LabelLess(p, q) == Len(p) < Len(q) \/ (Len(p) = Len(q) /\ LexLess(p, q, 1))
LabelCmp(p, q) == IF p = q THEN "eq" ELSE IF LabelLess(p, q) THEN "lt" ELSE "gt"

(* set operations of AzksElementSet, on sets of labels *)
RECURSIVE SetLcp(_)
SetLcp(S) ==
  IF S = {} THEN <<>>     \* the code returns the configuration's empty label; callers never use it
  ELSE LET x == CHOOSE x \in S : TRUE IN
       IF S = {x} THEN x ELSE Lcp(x, SetLcp(S \ {x}))

PartLeft(S, p)  == { q \in S : Dir(p, q) = "L" }
PartRight(S, p) == { q \in S : Dir(p, q) = "R" }
ContainsPrefix(S, p) == \E q \in S : IsPrefixOf(p, q)

PrefixFree(S) == \A p, q \in S : p # q => ~IsPrefixOf(p, q)

---------------------------------------------------------------------------
(* Algebraic laws, checked by TLC for all labels up to LawDepth bits (MCLabels) *)

LawsFor(p, q) ==
  /\ IsPrefixOf(Lcp(p, q), p) /\ IsPrefixOf(Lcp(p, q), q)
  /\ Lcp(p, q) = Lcp(q, p)
  /\ (IsPrefixOf(p, q) <=> Lcp(p, q) = p)
  /\ (Dir(p, q) = "L" <=> (IsPrefixOf(p, q) /\ Len(p) < Len(q) /\ q[Len(p)+1] = 0))
  /\ (Dir(p, q) = "R" <=> (IsPrefixOf(p, q) /\ Len(p) < Len(q) /\ q[Len(p)+1] = 1))
  /\ (LabelLess(p, q) \/ LabelLess(q, p) \/ p = q)
  /\ ~(LabelLess(p, q) /\ LabelLess(q, p))
  /\ \A n \in 0..Len(q) : IsPrefixOf(Prefix(q, n), q) /\ Len(Prefix(q, n)) = n

(* every common prefix is a prefix of the Lcp *)
LcpIsLongest(p, q, r) == (IsPrefixOf(r, p) /\ IsPrefixOf(r, q)) => IsPrefixOf(r, Lcp(p, q))

SetLaws(S) ==
  LET p == SetLcp(S) IN
  /\ \A q \in S : IsPrefixOf(p, q)
  /\ PartLeft(S, p) \cap PartRight(S, p) = {}
  /\ PartLeft(S, p) \cup PartRight(S, p) = { q \in S : q # p }
  /\ (Cardinality(S) >= 2 /\ PrefixFree(S)) => (PartLeft(S, p) # {} /\ PartRight(S, p) # {})
=============================================================================
