CONSTANTS
  Users = {"", "u", "w"}
  Epochs = {1, 2, 3, 4}
  Versions = {1, 2, 3, 4}
  Values = {"p", "q"}
  NodeNames = {"n1", "n2"}
  AzksEpochs = {1, 2, 3, 4}
  HasCache = FALSE
  CachePutBeforeDbWrite = FALSE
  BulkVersionsUsesEpoch = FALSE
  FillPolicy = "if_same_generation"
  FlushIgnoresCleanFlag = TRUE
  FlushBumpsGeneration = TRUE
INIT TInit
NEXT TNext
CONSTRAINT Track
INVARIANT TraceInv
POSTCONDITION Accepted
CHECK_DEADLOCK FALSE
