CONSTANTS
  Labels = {"a", "b", "c"}
  Values = {"x", "y"}
  MaxEpoch = 4
  MaxBatch = 2
  MaxPerEpoch = 2
  Export = TRUE
  WithOther = FALSE
INIT MCInit
NEXT MCNext
VIEW View
INVARIANTS TypeOK EpochCountsEffective LeafShape EveryEpochInserts LookupSoundOnHonest
PROPERTY CommittedOnlyGrows
CHECK_DEADLOCK FALSE
