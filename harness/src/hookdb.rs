//! Database wrapper around akd's in-memory database: counts, logs, fails, captures and gates
//! every storage operation. This is what lets the harness observe akd at the granularity the
//! properties quantify over (storage operations) without touching akd itself.

use akd::errors::StorageError;
use akd::storage::memory::AsyncInMemoryDatabase;
use akd::storage::types::{DbRecord, KeyData, ValueState, ValueStateRetrievalFlag};
use akd::storage::{Database, DbSetState, Storable, StorageUtil};
use akd::{AkdLabel, AkdValue};
use async_trait::async_trait;
use std::collections::{HashMap, HashSet, VecDeque};
use std::sync::{Arc, Mutex};

tokio::task_local! {
    /// process id of the logical caller (set by the concurrent driver)
    pub static PID: u32;
}

tokio::task_local! {
    /// the gate controller of the run the current task belongs to (for scheduling points outside storage operations)
    pub static CTL: Arc<Mutex<Ctl>>;
}

/// Wait at the gate for a grant (used by storage operations and by akd's guarded scheduling points)
pub async fn gate_wait(ctl: &Arc<Mutex<Ctl>>, pid: u32, kind: &'static str, detail: String) {
    {
        let mut c = ctl.lock().unwrap();
        if !(c.gate_enabled && pid != 0) {
            return;
        }
        c.waiting.insert(pid, (kind, detail));
    }
    loop {
        {
            let mut c = ctl.lock().unwrap();
            if c.grants.front() == Some(&pid) {
                c.grants.pop_front();
                c.waiting.remove(&pid);
                break;
            }
            if !c.gate_enabled {
                c.waiting.remove(&pid);
                break;
            }
        }
        tokio::task::yield_now().await;
    }
}

/// Installs the scheduling hook into akd (cfg facebook_akd_verif): a scheduling point of a gated task
/// waits for a grant exactly like a storage operation does.
#[cfg(facebook_akd_verif)]
pub fn install_sched_hook() {
    akd::verif_hooks::set_sched_hook(Some(Arc::new(|name: &'static str| {
        Box::pin(async move {
            let pid = current_pid();
            if let Ok(ctl) = CTL.try_with(|c| c.clone()) {
                let on = ctl.lock().unwrap().sched_points;
                if on {
                    gate_wait(&ctl, pid, "sched_point", name.to_string()).await;
                }
            }
        })
    })));
}
#[cfg(not(facebook_akd_verif))]
pub fn install_sched_hook() {}

/// Installs akd's guarded trace hook: every linearization point of the in-memory transaction is appended,
/// synchronously, to the protocol trace of the run the calling task belongs to.
#[cfg(facebook_akd_verif)]
pub fn install_trace_hook() {
    akd::verif_hooks::set_trace_hook(Some(Arc::new(|name: &'static str, ok: bool, recs: &[DbRecord]| {
        if let Ok(ctl) = CTL.try_with(|c| c.clone()) {
            let mut c = ctl.lock().unwrap();
            if c.proto_enabled {
                let pid = current_pid();
                let ev = serde_json::json!({"ev": name.replace("txn:", "t_"), "pid": pid, "ok": ok,
                    "recs": recs.iter().filter_map(rec_json).collect::<Vec<_>>()});
                c.proto.push(ev);
            }
        }
    })));
}
#[cfg(not(facebook_akd_verif))]
pub fn install_trace_hook() {}

/// label of a tree node as a short string: 64 leading bits in hex + "/" + length
pub fn node_key(l: &akd::NodeLabel) -> String {
    format!("{}/{}", hex::encode(&l.label_val[..8]), l.label_len)
}

/// What the protocol trace says about a record: the epoch record's epoch; a node record's two versions
/// (epoch + value; the full value is kept for the root so that the driver can turn it into the digest).
/// Value states are not part of the protocol model.
pub fn rec_json(r: &DbRecord) -> Option<serde_json::Value> {
    match r {
        DbRecord::Azks(a) => Some(serde_json::json!({"t": "azks", "ep": a.latest_epoch})),
        DbRecord::TreeNode(n) => {
            let full = n.label.label_len == 0;
            let h = |v: &akd::AzksValue| if full { hex::encode(v.0) } else { hex::encode(&v.0[..6]) };
            let (pn, pep, ph) = match &n.previous_node {
                None => (true, 0, String::new()),
                Some(p) => (false, p.last_epoch, h(&p.hash)),
            };
            Some(serde_json::json!({"t": "node", "k": node_key(&n.label), "lep": n.latest_node.last_epoch, "lh": h(&n.latest_node.hash),
                "pn": pn, "pep": pep, "ph": ph}))
        }
        DbRecord::ValueState(_) => None,
    }
}

pub fn current_pid() -> u32 {
    PID.try_with(|p| *p).unwrap_or(0)
}

#[derive(Clone, Debug)]
pub struct OpRec {
    pub seq: u64,
    pub pid: u32,
    pub kind: &'static str,
    pub detail: String,
    pub failed: bool,
}

#[derive(Default)]
pub struct Ctl {
    /// number of operations seen (since last reset_counter)
    pub ops: u64,
    /// fail these operation indices (1-based, counted since reset_counter) with a Connection error
    pub fail_at: HashSet<u64>,
    /// reject every write while set (reads work)
    pub reject_writes: bool,
    /// reject only the next write (one-shot)
    pub reject_next_write: bool,
    /// keep a copy of every commit batch (and still apply it)
    pub spy_commit: bool,
    /// capture commit batches instead of applying them
    pub capture_commit: bool,
    pub captured: Vec<Vec<DbRecord>>,
    pub log: Vec<OpRec>,
    pub log_enabled: bool,
    pub seq: u64,
    /// gate: when enabled every op of a known pid waits for a grant
    pub gate_enabled: bool,
    pub waiting: HashMap<u32, (&'static str, String)>,
    pub grants: VecDeque<u32>,
    /// pids for which the next op must fail (gate-driven fault injection)
    pub fail_next: HashSet<u32>,
    /// when set, the COMPLETION of every gated operation waits for a grant of its own: the operation has
    /// taken effect in (or read from) the database but its result has not reached the caller yet
    pub gate_post: bool,
    /// akd's guarded scheduling points take part in the gate
    pub sched_points: bool,
    /// protocol trace (TraceConcurrent): transaction linearization points reported by akd's guarded trace
    /// hook, database writes seen by this wrapper, call returns pushed by the driver - in real order
    pub proto_enabled: bool,
    pub proto: Vec<serde_json::Value>,
}

#[derive(Clone)]
pub struct HookDb {
    pub inner: AsyncInMemoryDatabase,
    pub ctl: Arc<Mutex<Ctl>>,
}

impl HookDb {
    pub fn new() -> Self {
        HookDb {
            inner: AsyncInMemoryDatabase::new(),
            ctl: Arc::new(Mutex::new(Ctl::default())),
        }
    }

    /// A new database holding a deep copy of the records (clone() of the inner db would share them).
    pub async fn deep_copy(&self) -> HookDb {
        let recs = self.inner.batch_get_all_direct().await.unwrap();
        let n = HookDb::new();
        n.inner
            .batch_set(recs, DbSetState::General)
            .await
            .unwrap();
        n
    }

    pub async fn all_records(&self) -> Vec<DbRecord> {
        self.inner.batch_get_all_direct().await.unwrap()
    }

    pub fn reset_counter(&self) {
        let mut c = self.ctl.lock().unwrap();
        c.ops = 0;
        c.fail_at.clear();
    }

    pub fn ops(&self) -> u64 {
        self.ctl.lock().unwrap().ops
    }

    pub fn set_fail_at(&self, k: u64) {
        let mut c = self.ctl.lock().unwrap();
        c.fail_at.clear();
        c.fail_at.insert(k);
    }

    pub fn set_reject_writes(&self, b: bool) {
        self.ctl.lock().unwrap().reject_writes = b;
    }

    pub fn set_capture(&self, b: bool) {
        self.ctl.lock().unwrap().capture_commit = b;
    }

    pub fn take_captured(&self) -> Vec<Vec<DbRecord>> {
        std::mem::take(&mut self.ctl.lock().unwrap().captured)
    }

    pub fn set_log(&self, b: bool) {
        self.ctl.lock().unwrap().log_enabled = b;
    }

    pub fn take_log(&self) -> Vec<OpRec> {
        std::mem::take(&mut self.ctl.lock().unwrap().log)
    }

    /// Common prologue of every operation: gate, count, log, decide on failure.
    async fn enter(&self, kind: &'static str, detail: String, is_write: bool) -> Result<(), StorageError> {
        let pid = current_pid();
        // gate
        let gated = {
            let c = self.ctl.lock().unwrap();
            c.gate_enabled && pid != 0
        };
        if gated {
            {
                let mut c = self.ctl.lock().unwrap();
                c.waiting.insert(pid, (kind, detail.clone()));
            }
            loop {
                {
                    let mut c = self.ctl.lock().unwrap();
                    if c.grants.front() == Some(&pid) {
                        c.grants.pop_front();
                        c.waiting.remove(&pid);
                        break;
                    }
                    if !c.gate_enabled {
                        c.waiting.remove(&pid);
                        break;
                    }
                }
                tokio::task::yield_now().await;
            }
        }
        let mut c = self.ctl.lock().unwrap();
        c.ops += 1;
        c.seq += 1;
        let k = c.ops;
        let mut fail = c.fail_at.contains(&k) || (is_write && c.reject_writes);
        if is_write && c.reject_next_write {
            c.reject_next_write = false;
            fail = true;
        }
        if c.fail_next.remove(&pid) {
            fail = true;
        }
        if c.log_enabled {
            let seq = c.seq;
            c.log.push(OpRec {
                seq,
                pid,
                kind,
                detail,
                failed: fail,
            });
        }
        if fail {
            Err(StorageError::Connection(format!(
                "injected failure of storage operation {k} ({kind})"
            )))
        } else {
            Ok(())
        }
    }
}

impl HookDb {
    /// protocol trace: a database write took effect (or failed as a whole) - recorded right after the change
    fn proto_write(&self, ok: bool, recs: Vec<serde_json::Value>) {
        let mut c = self.ctl.lock().unwrap();
        if c.proto_enabled {
            let pid = current_pid();
            c.proto.push(serde_json::json!({"ev": "db_write", "pid": pid, "ok": ok, "recs": recs}));
        }
    }

    /// completion point of a gated operation (see Ctl::gate_post)
    async fn leave(&self) {
        let pid = current_pid();
        let gated = {
            let c = self.ctl.lock().unwrap();
            c.gate_enabled && c.gate_post && pid != 0
        };
        if !gated {
            return;
        }
        {
            let mut c = self.ctl.lock().unwrap();
            c.waiting.insert(pid, ("complete", String::new()));
        }
        loop {
            {
                let mut c = self.ctl.lock().unwrap();
                if c.grants.front() == Some(&pid) {
                    c.grants.pop_front();
                    c.waiting.remove(&pid);
                    break;
                }
                if !c.gate_enabled {
                    c.waiting.remove(&pid);
                    break;
                }
            }
            tokio::task::yield_now().await;
        }
        let mut c = self.ctl.lock().unwrap();
        if c.log_enabled {
            c.seq += 1;
            let seq = c.seq;
            c.log.push(OpRec { seq, pid, kind: "complete", detail: String::new(), failed: false });
        }
    }
}

fn rec_desc(r: &DbRecord) -> String {
    match r {
        DbRecord::Azks(a) => format!("azks:{}", a.latest_epoch),
        DbRecord::TreeNode(n) => format!(
            "node:{}/{}:{}",
            hex::encode(&n.label.label_val[..4]),
            n.label.label_len,
            n.latest_node.last_epoch
        ),
        DbRecord::ValueState(v) => format!("vs:{}@{}", hex::encode(&v.username.0[..v.username.0.len().min(4)]), v.epoch),
    }
}

#[async_trait]
impl Database for HookDb {
    async fn set(&self, record: DbRecord) -> Result<(), StorageError> {
        let recs = rec_json(&record).into_iter().collect::<Vec<_>>();
        if let Err(e) = self.enter("set", rec_desc(&record), true).await {
            self.proto_write(false, recs);
            return Err(e);
        }
        let r = self.inner.set(record).await;
        self.proto_write(r.is_ok(), recs);
        self.leave().await;
        r
    }

    async fn batch_set(&self, records: Vec<DbRecord>, state: DbSetState) -> Result<(), StorageError> {
        let is_commit = matches!(state, DbSetState::TransactionCommit);
        let detail = records.iter().map(rec_desc).collect::<Vec<_>>().join(",");
        let recs = records.iter().filter_map(rec_json).collect::<Vec<_>>();
        if let Err(e) = self.enter(if is_commit { "commit" } else { "batch_set" }, detail, true).await {
            self.proto_write(false, recs);
            return Err(e);
        }
        if is_commit {
            let mut c = self.ctl.lock().unwrap();
            if c.capture_commit {
                c.captured.push(records);
                return Ok(());
            }
            if c.spy_commit {
                c.captured.push(records.clone());
            }
        }
        let r = self.inner.batch_set(records, state).await;
        self.proto_write(r.is_ok(), recs);
        self.leave().await;
        r
    }

    async fn get<St: Storable>(&self, id: &St::StorageKey) -> Result<DbRecord, StorageError> {
        self.enter("get", format!("{:?}:{:?}", St::data_type(), id), false)
            .await?;
        let r = self.inner.get::<St>(id).await;
        self.leave().await;
        r
    }

    async fn batch_get<St: Storable>(&self, ids: &[St::StorageKey]) -> Result<Vec<DbRecord>, StorageError> {
        self.enter("batch_get", format!("{:?}x{}", St::data_type(), ids.len()), false)
            .await?;
        let r = self.inner.batch_get::<St>(ids).await;
        self.leave().await;
        r
    }

    async fn get_user_data(&self, username: &AkdLabel) -> Result<KeyData, StorageError> {
        self.enter("get_user_data", String::new(), false).await?;
        let r = self.inner.get_user_data(username).await;
        self.leave().await;
        r
    }

    async fn get_user_state(
        &self,
        username: &AkdLabel,
        flag: ValueStateRetrievalFlag,
    ) -> Result<ValueState, StorageError> {
        self.enter("get_user_state", format!("{flag:?}"), false).await?;
        let r = self.inner.get_user_state(username, flag).await;
        self.leave().await;
        r
    }

    async fn get_user_state_versions(
        &self,
        usernames: &[AkdLabel],
        flag: ValueStateRetrievalFlag,
    ) -> Result<HashMap<AkdLabel, (u64, AkdValue)>, StorageError> {
        self.enter("get_user_state_versions", format!("{flag:?}"), false)
            .await?;
        let r = self.inner.get_user_state_versions(usernames, flag).await;
        self.leave().await;
        r
    }
}
