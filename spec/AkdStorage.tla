----------------------------- MODULE AkdStorage -----------------------------
(***************************************************************************)
(* akd's StorageManager (akd/src/storage/manager/mod.rs) in front of a     *)
(* user-supplied Database: one in-memory transaction (flag + pending       *)
(* records, storage/transaction.rs), an optional object cache with a       *)
(* never-expiring slot for the epoch record (storage/cache/                *)
(* high_parallelism.rs), and the user-state queries of the in-memory       *)
(* database (storage/memory.rs).                                           *)
(*                                                                         *)
(* Records (tuples so that they can be compared with trace events):        *)
(*   <<"azks", epoch>>   <<"node", name, ver>>   <<"vs", user, epoch, version, value>> *)
(* Keys:  <<"azks">>     <<"node", name>>        <<"vs", user, epoch>>     *)
(***************************************************************************)
EXTENDS Naturals, Sequences, FiniteSets, TLC

CONSTANTS Users, Epochs, Versions, Values, NodeNames, AzksEpochs,
          HasCache,                  \* the manager was created with a cache
          CachePutBeforeDbWrite,     \* TRUE = pinned behaviour (cache filled before the database write)
          BulkVersionsUsesEpoch,     \* TRUE = pinned behaviour of get_user_state_versions inside a transaction
          FlushBumpsGeneration,      \* TRUE = as the code: a flush moves the write generation, so that database answers still in flight are not cached afterwards
          FlushIgnoresCleanFlag,     \* TRUE = as the code: flush_cache always empties the cache (FALSE: a flush that is skipped while cleaning is disabled)
          FillPolicy                 \* what a read that missed does with the database's answer when it arrives:
                                     \* "always" (pinned: put it into the cache), "if_absent", "if_same_generation" (repaired)

VARIABLES db,          \* set of records in the database (at most one per key)
          txnActive, txnMods,    \* transaction flag, pending records (set, at most one per key)
          cacheAzks,   \* {} or {record}: the special slot
          cacheMap,    \* set of [rec, expired]
          canClean,    \* cache cleaning enabled
          rejectNext,  \* the database refuses the next write
          inflight,    \* reads that missed the cache: the database has answered, the answer has not reached the manager yet
          gen,         \* cache write generation: bumped by every write-path put and by flush
          extStale     \* keys written to the database by ANOTHER instance since the last flush: the cache may be behind for them

svars == <<db, txnActive, txnMods, cacheAzks, cacheMap, canClean, rejectNext, inflight, gen, extStale>>

KeyOf(r) == IF r[1] = "azks" THEN <<"azks">>
            ELSE IF r[1] = "node" THEN <<"node", r[2]>>
            ELSE <<"vs", r[2], r[3]>>

AzksRecs == { <<"azks", e>> : e \in AzksEpochs }
NodeRecs == { <<"node", n, v>> : n \in NodeNames, v \in Versions }
VsRecs == { <<"vs", u, e, v, x>> : u \in Users, e \in Epochs, v \in Versions, x \in Values }
TombValue == "t"
TombedRecs == { <<"vs", u, e, v, TombValue>> : u \in Users, e \in Epochs, v \in Versions }
AllRecs == AzksRecs \cup NodeRecs \cup VsRecs
AllKeys == { KeyOf(r) : r \in AllRecs }

IsVs(r) == r[1] = "vs"

(* overwrite by key *)
Upsert(S, R) == { s \in S : \A r \in R : KeyOf(r) # KeyOf(s) } \cup R
Lookup(S, k) == { s \in S : KeyOf(s) = k }          \* {} or a singleton

(* well-formed user data: versions grow with epochs; same (user, epoch) keeps its version *)
WellFormed(S) ==
  \A a \in S : \A b \in S :
     (IsVs(a) /\ IsVs(b) /\ a[2] = b[2]) =>
        /\ (a[3] < b[3] => a[4] < b[4])
        /\ (a[3] = b[3] => a[4] = b[4])

OneP(S) == \A a \in S : \A b \in S : KeyOf(a) = KeyOf(b) => a = b

---------------------------------------------------------------------------
(* user-state queries of the database (memory.rs:183-277) on a set of records *)

UserStates(S, u) == { s \in S : IsVs(s) /\ s[2] = u }
MaxBy(T) == { t \in T : \A o \in T : o[3] <= t[3] }     \* by epoch
MinBy(T) == { t \in T : \A o \in T : o[3] >= t[3] }

(* flags: <<"max">>, <<"min">>, <<"leq", e>>, <<"epoch", e>>, <<"version", v>> *)
Flags == { <<"max">>, <<"min">> } \cup { <<"leq", e>> : e \in Epochs } \cup { <<"epoch", e>> : e \in Epochs }
         \cup { <<"version", v>> : v \in Versions }

Select(T, flag) ==      \* {} or singleton (given well-formedness)
  CASE flag[1] = "max" -> MaxBy(T)
    [] flag[1] = "min" -> MinBy(T)
    [] flag[1] = "leq" -> MaxBy({ t \in T : t[3] <= flag[2] })
    [] flag[1] = "epoch" -> { t \in T : t[3] = flag[2] }
    [] flag[1] = "version" -> { t \in T : t[4] = flag[2] }

DbUserState(S, u, flag) == Select(UserStates(S, u), flag)
DbUserData(S, u) == UserStates(S, u)
DbUserVersions(S, U, flag) == { <<t[2], t[4], t[5]>> : t \in UNION { DbUserState(S, u, flag) : u \in U } }

---------------------------------------------------------------------------
(* reads through the manager (manager/mod.rs:321-616) *)

(* what a cache hit test would return for key k: {} = miss *)
CacheHit(k) ==
  IF ~HasCache THEN {}
  ELSE IF k = <<"azks">> THEN cacheAzks
  ELSE { c.rec : c \in { c \in cacheMap : KeyOf(c.rec) = k /\ (~canClean \/ ~c.expired) } }

MGet(k) ==       \* get::<St>(k): transaction log, then cache, then database
  IF txnActive /\ Lookup(txnMods, k) # {} THEN Lookup(txnMods, k)
  ELSE IF CacheHit(k) # {} THEN CacheHit(k)
  ELSE Lookup(db, k)

MBatchGet(K) == UNION { MGet(k) : k \in K }

(* StorageManager::compare_db_and_transaction_records *)
TxnWins(dbEpoch, t, flag) ==
  CASE flag[1] \in {"version", "epoch"} -> TRUE
    [] flag[1] \in {"leq", "max"} -> t[3] >= dbEpoch
    [] flag[1] = "min" -> t[3] <= dbEpoch

MUserState(u, flag) ==
  LET d == DbUserState(db, u, flag)
      t == IF txnActive THEN Select(UserStates(txnMods, u), flag) ELSE {}
  IN IF t # {}
       THEN IF d = {} THEN t
            ELSE LET dr == CHOOSE x \in d : TRUE
                     tr == CHOOSE x \in t : TRUE
                 IN IF TxnWins(dr[3], tr, flag) THEN t ELSE d
       ELSE d

MUserData(u) ==
  IF txnActive THEN Upsert(DbUserData(db, u), UserStates(txnMods, u)) ELSE DbUserData(db, u)

(* get_user_state_versions: the database returns (version, value) only *)
MUserVersionsOne(u, flag) ==
  LET d == DbUserState(db, u, flag)
      t == IF txnActive THEN Select(UserStates(txnMods, u), flag) ELSE {}
  IN IF t = {} THEN { <<x[2], x[4], x[5]>> : x \in d }
     ELSE LET tr == CHOOSE x \in t : TRUE IN
          IF d = {}
            THEN IF BulkVersionsUsesEpoch THEN { <<u, tr[3], tr[5]>> } ELSE { <<u, tr[4], tr[5]>> }
            ELSE LET dr == CHOOSE x \in d : TRUE IN
                 IF BulkVersionsUsesEpoch
                   THEN (* pinned: the database's version is treated as an epoch *)
                        IF TxnWins(dr[4], tr, flag) THEN { <<u, dr[4], tr[5]>> } ELSE { <<u, dr[4], dr[5]>> }
                   ELSE (* repaired: versions decide which record is newer *)
                        LET wins == CASE flag[1] \in {"version", "epoch"} -> TRUE
                                      [] flag[1] \in {"leq", "max"} -> tr[4] >= dr[4]
                                      [] flag[1] = "min" -> tr[4] <= dr[4]
                        IN IF wins THEN { <<u, tr[4], tr[5]>> } ELSE { <<u, dr[4], dr[5]>> }
MUserVersions(U, flag) == UNION { MUserVersionsOne(u, flag) : u \in U }

---------------------------------------------------------------------------
(* state after a (successful) commit of the open transaction, and the same reads on it *)

Committed == Upsert(db, txnMods)

PostGet(k) == Lookup(Committed, k)
PostUserState(u, flag) == DbUserState(Committed, u, flag)
PostUserData(u) == DbUserData(Committed, u)
PostUserVersions(U, flag) == DbUserVersions(Committed, U, flag)

---------------------------------------------------------------------------
(* actions: one per public manager call; `res` is what the call returns *)

CachePut(R) ==     \* TimedCache::put / batch_put (fresh expiry)
  IF ~HasCache THEN UNCHANGED <<cacheAzks, cacheMap>>
  ELSE /\ cacheAzks' = IF \E r \in R : r[1] = "azks" THEN { r \in R : r[1] = "azks" } ELSE cacheAzks
       /\ cacheMap' = { c \in cacheMap : \A r \in R : KeyOf(r) # KeyOf(c.rec) }
                      \cup { [rec |-> r, expired |-> FALSE] : r \in { r \in R : r[1] # "azks" } }

BumpGen == gen' = IF HasCache THEN (gen + 1) % 4 ELSE gen      \* bounded counter (enough to tell "changed")

(* a write of the record set R outside a transaction, or the commit's write *)
DbWrite(R, res) ==
  /\ UNCHANGED <<inflight, extStale>>
  /\ IF rejectNext
    THEN /\ res = "err"
         /\ rejectNext' = FALSE
         /\ db' = db
         /\ IF CachePutBeforeDbWrite THEN CachePut(R) /\ BumpGen ELSE UNCHANGED <<cacheAzks, cacheMap, gen, extStale>>
    ELSE /\ res = "ok"
         /\ rejectNext' = FALSE
         /\ db' = Upsert(db, R)
         /\ CachePut(R) /\ BumpGen

SetRecs(R, res) ==       \* set (|R| = 1) and batch_set
  /\ R # {} /\ OneP(R)
  /\ IF txnActive
       THEN /\ res = "ok"
            /\ txnMods' = Upsert(txnMods, R)
            /\ UNCHANGED <<db, txnActive, cacheAzks, cacheMap, canClean, rejectNext, inflight, gen, extStale>>
       ELSE /\ DbWrite(R, res)
            /\ UNCHANGED <<txnActive, txnMods, canClean>>

Begin(res) ==
  /\ res = ~txnActive
  /\ txnActive' = TRUE
  /\ canClean' = FALSE
  /\ UNCHANGED <<db, txnMods, cacheAzks, cacheMap, rejectNext, inflight, gen, extStale>>

(* commit_transaction: drains the log first; refuses a log without the epoch record *)
Commit(res) ==
  IF ~txnActive
    THEN res = "err" /\ UNCHANGED svars
    ELSE /\ txnActive' = FALSE
         /\ txnMods' = {}
         /\ canClean' = TRUE
         /\ IF txnMods = {}
              THEN res = "ok" /\ UNCHANGED <<db, cacheAzks, cacheMap, rejectNext, inflight, gen, extStale>>
              ELSE IF ~\E r \in txnMods : r[1] = "azks"
                THEN res = "err" /\ UNCHANGED <<db, cacheAzks, cacheMap, rejectNext, inflight, gen, extStale>>
                ELSE DbWrite(txnMods, res)

Rollback(res) ==
  IF ~txnActive
    THEN res = "err" /\ UNCHANGED svars
    ELSE /\ res = "ok"
         /\ txnActive' = FALSE /\ txnMods' = {} /\ canClean' = TRUE
         /\ UNCHANGED <<db, cacheAzks, cacheMap, rejectNext, inflight, gen, extStale>>

(* flush_cache: afterwards reads reflect storage, also for what another instance wrote *)
Flush ==
  /\ IF FlushIgnoresCleanFlag \/ canClean
       THEN /\ cacheAzks' = {} /\ cacheMap' = {}
            /\ IF FlushBumpsGeneration THEN BumpGen ELSE UNCHANGED gen
       ELSE UNCHANGED <<cacheAzks, cacheMap, gen>>
  /\ extStale' = {}
  \* answers still in flight stay in flight: it is the generation guard that must keep them out of the cache
  /\ UNCHANGED <<db, txnActive, txnMods, canClean, rejectNext, inflight>>

(* another instance (its own manager) writes to the same database *)
ExtWrite(R) ==
  /\ R # {} /\ OneP(R)
  /\ db' = Upsert(db, R)
  /\ extStale' = extStale \cup { KeyOf(r) : r \in R }
  /\ UNCHANGED <<txnActive, txnMods, cacheAzks, cacheMap, canClean, rejectNext, inflight, gen>>

(* a read that misses fills the cache with what the database returned *)
ReadFill(K) ==
  LET missed == { k \in K : ~(txnActive /\ Lookup(txnMods, k) # {}) /\ CacheHit(k) = {} } IN
  /\ CachePut(UNION { Lookup(db, k) : k \in missed })
  /\ UNCHANGED <<db, txnActive, txnMods, canClean, rejectNext, inflight, gen, extStale>>

(* the same read in two steps: the database answers (GetIssue), the answer reaches the manager later *)
(* (GetComplete) - other calls may run in between                                                     *)
GetIssue(k) ==
  /\ HasCache
  /\ ~(txnActive /\ Lookup(txnMods, k) # {}) /\ CacheHit(k) = {}
  /\ inflight' = inflight \cup { [key |-> k, val |-> Lookup(db, k), g |-> gen] }
  /\ UNCHANGED <<db, txnActive, txnMods, cacheAzks, cacheMap, canClean, rejectNext, gen, extStale>>

GetComplete(f) ==
  /\ f \in inflight
  /\ inflight' = inflight \ {f}
  /\ LET fill == CASE FillPolicy = "always" -> TRUE
                    [] FillPolicy = "if_absent" -> CacheHit(f.key) = {}
                    [] FillPolicy = "if_same_generation" -> f.g = gen
     IN IF fill THEN CachePut(f.val) ELSE UNCHANGED <<cacheAzks, cacheMap>>
  /\ UNCHANGED <<db, txnActive, txnMods, canClean, rejectNext, gen, extStale>>

(* tombstone_value_states(user, epoch): rewrites values, keeps versions *)
TombRecs(u, e) ==
  { <<"vs", s[2], s[3], s[4], TombValue>> : s \in { s \in MUserData(u) : s[3] <= e /\ s[5] # TombValue } }
Tombstone(u, e, res) ==
  IF ~txnActive /\ DbUserData(db, u) = {}
    THEN res = "err" /\ UNCHANGED svars          \* get_user_data reports NotFound for an unknown user
  ELSE IF TombRecs(u, e) = {} THEN res = "ok" /\ UNCHANGED svars
  ELSE SetRecs(TombRecs(u, e), res)

SetClean(b) == canClean' = b /\ UNCHANGED <<db, txnActive, txnMods, cacheAzks, cacheMap, rejectNext, inflight, gen, extStale>>

(* environment: time passes (any cached items expire), memory pressure / timed cleaning drops items *)
Tick == /\ HasCache
        /\ \E X \in SUBSET cacheMap :
             cacheMap' = (cacheMap \ X) \cup { [rec |-> c.rec, expired |-> TRUE] : c \in X }
        /\ UNCHANGED <<db, txnActive, txnMods, cacheAzks, canClean, rejectNext, inflight, gen, extStale>>
Pressure == /\ HasCache /\ canClean
            /\ \E X \in SUBSET cacheMap : cacheMap' = cacheMap \ X
            /\ UNCHANGED <<db, txnActive, txnMods, cacheAzks, canClean, rejectNext, inflight, gen, extStale>>
RejectNext == /\ ~rejectNext /\ rejectNext' = TRUE
              /\ UNCHANGED <<db, txnActive, txnMods, cacheAzks, cacheMap, canClean, inflight, gen, extStale>>

Init ==
  /\ db = {} /\ txnActive = FALSE /\ txnMods = {}
  /\ cacheAzks = {} /\ cacheMap = {} /\ canClean = TRUE /\ rejectNext = FALSE
  /\ inflight = {} /\ gen = 0 /\ extStale = {}

---------------------------------------------------------------------------
(* invariants *)

TypeOK == /\ db \subseteq (AllRecs \cup TombedRecs) /\ OneP(db)
          /\ txnMods \subseteq (AllRecs \cup TombedRecs) /\ OneP(txnMods)
          /\ WellFormed(db \cup txnMods)
          /\ (~txnActive => txnMods = {})

(* C15: every read inside the transaction returns what the same read returns after commit *)
TxnReadsEqualPostCommit ==
  txnActive =>
    /\ \A k \in AllKeys : MGet(k) = PostGet(k)
    /\ \A u \in Users : \A f \in Flags : MUserState(u, f) = PostUserState(u, f)
    /\ \A u \in Users : MUserData(u) = PostUserData(u)
    /\ \A U \in SUBSET Users : \A f \in Flags : MUserVersions(U, f) = PostUserVersions(U, f)

(* C16: the cache never changes what a read returns *)
CacheTransparent ==
  \A k \in AllKeys \ extStale :
     MGet(k) = IF txnActive /\ Lookup(txnMods, k) # {} THEN Lookup(txnMods, k) ELSE Lookup(db, k)

(* C16: after a flush the next read of the epoch record reflects storage (action property) *)
FlushRefreshes == [][ (cacheAzks' = {} /\ cacheMap' = {}) => TRUE ]_svars
=============================================================================
