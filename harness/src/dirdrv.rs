//! Directory-level driver: replays behaviours (sequences of publish / tombstone / reopen steps)
//! on a real akd Directory and records, for every call, the arguments and the *verified* results
//! as a TraceDirectory trace. The trace is judged by TLC against AkdDirectory.tla.

use crate::common::*;
use crate::hookdb::HookDb;
use crate::refhash::{self, RLabel, RLeaf, RefCfg};
use akd::append_only_zks::{AzksParallelismConfig, AzksParallelismOption};
use akd::directory::{Directory, ReadOnlyDirectory};
use akd::ecvrf::{HardCodedAkdVRF, VRFKeyStorage};
use akd::storage::manager::StorageManager;
use akd::storage::types::DbRecord;
use akd::tree_node::{TreeNode, TreeNodeType, TreeNodeWithPreviousValue};
use akd::verify::history::HistoryParams;
use akd::{
    AkdLabel, AkdValue, Configuration, Digest, EpochHash, HistoryVerificationParams, NodeLabel,
    VersionFreshness,
};
use serde_json::{json, Value};
use std::collections::HashMap;
use std::time::Duration;

pub trait HasRef: Configuration {
    type R: RefCfg;
    const NAME: &'static str;
}
impl HasRef for Wa {
    type R = refhash::RefWa;
    const NAME: &'static str = "wa";
}
impl HasRef for Exp {
    type R = refhash::RefExp;
    const NAME: &'static str = "exp";
}

pub fn rl(l: &NodeLabel) -> RLabel {
    RLabel {
        val: l.label_val,
        len: l.label_len,
    }
}

#[derive(Clone, Debug)]
pub struct Cell {
    pub par: String,
    pub cache: String,
    pub reopen: String,
    pub wire: bool,
}

impl Cell {
    pub fn from_json(v: &Value) -> Cell {
        Cell {
            par: v["par"].as_str().unwrap_or("disabled").to_string(),
            cache: v["cache"].as_str().unwrap_or("none").to_string(),
            reopen: v["reopen"].as_str().unwrap_or("same").to_string(),
            wire: v["wire"].as_bool().unwrap_or(false),
        }
    }
    pub fn to_json(&self) -> Value {
        json!({"par": self.par, "cache": self.cache, "reopen": self.reopen, "wire": self.wire})
    }
    pub fn parallelism(&self) -> AzksParallelismConfig {
        let opt = match self.par.as_str() {
            "disabled" => AzksParallelismOption::Disabled,
            "avail" => AzksParallelismOption::AvailableOr(32),
            s if s.starts_with('s') => AzksParallelismOption::Static(s[1..].parse().unwrap()),
            other => panic!("bad par {other}"),
        };
        AzksParallelismConfig {
            insertion: opt,
            preload: opt,
        }
    }
    pub fn manager(&self, db: HookDb) -> StorageManager<HookDb> {
        match self.cache.as_str() {
            "none" => StorageManager::new_no_cache(db),
            "default" => StorageManager::new(db, None, None, None),
            // 1 ms is silently replaced by the defaults inside TimedCache::new
            "ms1" => StorageManager::new(
                db,
                Some(Duration::from_millis(1)),
                None,
                Some(Duration::from_millis(1)),
            ),
            "short" => StorageManager::new(
                db,
                Some(Duration::from_millis(2)),
                None,
                Some(Duration::from_millis(2)),
            ),
            "tiny" => StorageManager::new(
                db,
                Some(Duration::from_millis(50)),
                Some(500),
                Some(Duration::from_millis(2)),
            ),
            // a memory limit smaller than most single writes, but nothing expires and the cleaner does not run in the
            // meantime: what the cache holds is decided by the write path alone
            "tight" => StorageManager::new(db, None, Some(500), None),
            other => panic!("bad cache {other}"),
        }
    }
}

pub enum Reader<TC: Configuration> {
    Dir(Directory<TC, HookDb, HardCodedAkdVRF>),
    Ro(ReadOnlyDirectory<TC, HookDb, HardCodedAkdVRF>),
}

impl<TC: Configuration> Reader<TC> {
    pub async fn lookup(&self, l: AkdLabel) -> Result<(akd::LookupProof, EpochHash), akd::errors::AkdError> {
        match self {
            Reader::Dir(d) => d.lookup(l).await,
            Reader::Ro(d) => d.lookup(l).await,
        }
    }
    pub async fn batch_lookup(
        &self,
        l: &[AkdLabel],
    ) -> Result<(Vec<akd::LookupProof>, EpochHash), akd::errors::AkdError> {
        match self {
            Reader::Dir(d) => d.batch_lookup(l).await,
            Reader::Ro(d) => d.batch_lookup(l).await,
        }
    }
    pub async fn key_history(
        &self,
        l: &AkdLabel,
        p: HistoryParams,
    ) -> Result<(akd::HistoryProof, EpochHash), akd::errors::AkdError> {
        match self {
            Reader::Dir(d) => d.key_history(l, p).await,
            Reader::Ro(d) => d.key_history(l, p).await,
        }
    }
    pub async fn audit(&self, s: u64, e: u64) -> Result<akd::AppendOnlyProof, akd::errors::AkdError> {
        match self {
            Reader::Dir(d) => d.audit(s, e).await,
            Reader::Ro(d) => d.audit(s, e).await,
        }
    }
    pub async fn get_epoch_hash(&self) -> Result<EpochHash, akd::errors::AkdError> {
        match self {
            Reader::Dir(d) => d.get_epoch_hash().await,
            Reader::Ro(d) => d.get_epoch_hash().await,
        }
    }
}

/// What the auditor computes as root hash for a set of elements (public API only).
pub async fn auditor_end_hash<TC: Configuration>(elems: Vec<akd::AzksElement>, latest_epoch: u64) -> Option<Digest> {
    let manager = StorageManager::new_no_cache(akd::storage::memory::AsyncInMemoryDatabase::new());
    let mut azks = akd::Azks::new::<TC, _>(&manager).await.ok()?;
    azks.latest_epoch = latest_epoch;
    azks.batch_insert_nodes::<TC, _>(&manager, elems, akd::append_only_zks::InsertMode::Auditor, AzksParallelismConfig::default())
        .await
        .ok()?;
    azks.get_root_hash::<TC, _>(&manager).await.ok()
}

/// One node of the real tree as of some epoch, projected.
#[derive(Clone, Debug)]
pub struct NodeView {
    pub label: NodeLabel,
    pub node: TreeNode,
}

pub fn as_of(rec: &TreeNodeWithPreviousValue, t: u64) -> Option<TreeNode> {
    if rec.latest_node.last_epoch <= t {
        Some(rec.latest_node.clone())
    } else {
        match &rec.previous_node {
            Some(p) if p.last_epoch <= t => Some(p.clone()),
            _ => None,
        }
    }
}

/// Walk the stored tree from the root as of epoch t. Returns nodes reachable; Err on a dangling link.
pub fn project_tree(recs: &[DbRecord], t: u64) -> Result<Vec<TreeNode>, String> {
    let mut map: HashMap<NodeLabel, &TreeNodeWithPreviousValue> = HashMap::new();
    for r in recs {
        if let DbRecord::TreeNode(n) = r {
            map.insert(n.label, n);
        }
    }
    let mut out = vec![];
    let mut stack = vec![NodeLabel::root()];
    while let Some(l) = stack.pop() {
        let rec = map.get(&l).ok_or_else(|| format!("dangling link to {l}"))?;
        let n = as_of(rec, t).ok_or_else(|| format!("node {l} has no version as of {t}"))?;
        if let Some(c) = n.left_child {
            stack.push(c);
        }
        if let Some(c) = n.right_child {
            stack.push(c);
        }
        out.push(n);
    }
    Ok(out)
}

pub struct DirCtx<TC: HasRef> {
    pub db: HookDb,
    pub manager: StorageManager<HookDb>,
    pub dir: Directory<TC, HookDb, HardCodedAkdVRF>,
    pub vrf: HardCodedAkdVRF,
    pub pk: Vec<u8>,
    pub ckey: [u8; 32],
    pub conc: Conc,
    pub cell: Cell,
    pub labels: Vec<String>,
    pub values: Vec<String>,
    /// digest published per epoch (index = epoch), as returned by publish / initial epoch hash
    pub roots: Vec<Digest>,
    /// node label -> (abstract label, fresh?, version)
    pub ident: HashMap<NodeLabel, (String, bool, u64)>,
    pub ident_upto: u64,
    /// max number of versions per label (for sizing the sweep)
    pub versions: HashMap<String, u64>,
    /// which observation kinds the sweep performs (empty = all)
    pub kinds: Vec<String>,
    /// honest lookup proofs kept from earlier epochs (C06: material from another epoch's tree)
    pub old_proofs: Vec<(String, u64, akd::LookupProof)>,
    /// node labels of the leaves that publishes of labels OUTSIDE the modelled set must have left in the tree
    pub other_ident: std::collections::HashSet<NodeLabel>,
    /// per foreign group (tag): versions published so far of its labels 0, 1, 2, ...
    pub other_groups: HashMap<u64, Vec<u64>>,
}

/// stands for MostRecent(usize::MAX) in traces
pub const HUGE_N: u64 = 2147483647;

pub fn rid(d: &Digest) -> String {
    short(d)
}

impl<TC: HasRef> DirCtx<TC> {
    pub async fn new(conc_variant: u64, cell: Cell, labels: Vec<String>, values: Vec<String>) -> Self {
        let db = HookDb::new();
        Self::over(db, conc_variant, cell, labels, values).await
    }

    pub async fn over(db: HookDb, conc_variant: u64, cell: Cell, labels: Vec<String>, values: Vec<String>) -> Self {
        let manager = cell.manager(db.clone());
        let vrf = HardCodedAkdVRF {};
        let dir = Directory::<TC, _, _>::new(manager.clone(), vrf.clone(), cell.parallelism())
            .await
            .expect("directory");
        let pk = dir.get_public_key().await.unwrap().as_bytes().to_vec();
        let secret = vrf.retrieve().await.unwrap();
        let ckey = <TC::R as RefCfg>::commitment_key(&secret);
        let eh = dir.get_epoch_hash().await.unwrap();
        let mut roots = vec![];
        // when opened over an existing database the earlier digests are unknown (filled by caller)
        for _ in 0..eh.0 {
            roots.push([0u8; 32]);
        }
        roots.push(eh.1);
        DirCtx {
            db,
            manager,
            dir,
            vrf,
            pk,
            ckey,
            conc: Conc::new(conc_variant),
            cell,
            labels,
            values,
            roots,
            ident: HashMap::new(),
            ident_upto: 0,
            versions: HashMap::new(),
            kinds: vec![],
            old_proofs: vec![],
            other_ident: Default::default(),
            other_groups: Default::default(),
        }
    }

    async fn pause(&self) {
        if self.cell.cache == "short" || self.cell.cache == "tiny" {
            tokio::time::sleep(Duration::from_millis(3)).await;
        }
    }

    pub async fn writer(&mut self) -> Directory<TC, HookDb, HardCodedAkdVRF> {
        self.pause().await;
        match self.cell.reopen.as_str() {
            "same" | "readonly" => self.dir.clone(),
            "recreate" => Directory::<TC, _, _>::new(self.manager.clone(), self.vrf.clone(), self.cell.parallelism())
                .await
                .unwrap(),
            "fresh_mgr" => {
                self.manager = self.cell.manager(self.db.clone());
                Directory::<TC, _, _>::new(self.manager.clone(), self.vrf.clone(), self.cell.parallelism())
                    .await
                    .unwrap()
            }
            other => panic!("bad reopen {other}"),
        }
    }

    pub async fn reader(&mut self) -> Reader<TC> {
        self.pause().await;
        match self.cell.reopen.as_str() {
            "same" => Reader::Dir(self.dir.clone()),
            "recreate" => Reader::Dir(
                Directory::<TC, _, _>::new(self.manager.clone(), self.vrf.clone(), self.cell.parallelism())
                    .await
                    .unwrap(),
            ),
            "fresh_mgr" => {
                self.manager = self.cell.manager(self.db.clone());
                Reader::Dir(
                    Directory::<TC, _, _>::new(self.manager.clone(), self.vrf.clone(), self.cell.parallelism())
                        .await
                        .unwrap(),
                )
            }
            "readonly" => Reader::Ro(
                ReadOnlyDirectory::<TC, _, _>::new(self.manager.clone(), self.vrf.clone(), self.cell.parallelism())
                    .await
                    .unwrap(),
            ),
            other => panic!("bad reopen {other}"),
        }
    }

    async fn ensure_ident(&mut self, upto: u64) {
        if upto <= self.ident_upto {
            return;
        }
        let names = self.labels.clone();
        for name in names {
            let lab = self.conc.label(&name);
            for v in (self.ident_upto + 1)..=upto {
                for fresh in [true, false] {
                    let f = if fresh {
                        VersionFreshness::Fresh
                    } else {
                        VersionFreshness::Stale
                    };
                    let nl = self.vrf.get_node_label::<TC>(&lab, f, v).await.unwrap();
                    self.ident.insert(nl, (name.clone(), fresh, v));
                }
            }
        }
        self.ident_upto = upto;
    }

    /// Project the real tree as of epoch t into (reference root digest, abstract leaves).
    pub async fn leaves_and_refroot(&mut self, t: u64) -> (Option<Digest>, Value) {
        self.ensure_ident(t + 2).await;
        let recs = self.db.all_records().await;
        let nodes = match project_tree(&recs, t) {
            Ok(n) => n,
            Err(e) => return (None, json!([["!", e, 0, "?", 0]])),
        };
        let mut rleaves = vec![];
        let mut abs = vec![];
        for n in nodes.iter().filter(|n| n.node_type == TreeNodeType::Leaf) {
            let label = rl(&n.label);
            rleaves.push(RLeaf {
                label,
                hashed: <TC::R as RefCfg>::leaf(&n.hash.0, n.last_epoch),
            });
            match self.ident.get(&n.label) {
                None if self.other_ident.contains(&n.label) => {} // a leaf of a label outside the modelled set: in the reference root, not in the projection
                None => abs.push(json!(["?", "?", 0, "?", n.last_epoch])),
                Some((name, fresh, ver)) => {
                    let val = if *fresh {
                        let mut found = "?".to_string();
                        let vals = self.values.clone();
                        for vn in vals {
                            let vb = self.conc.value(&vn);
                            if <TC::R as RefCfg>::commitment(&self.ckey, &label, *ver, &vb.0) == n.hash.0 {
                                found = vn;
                                break;
                            }
                        }
                        found
                    } else if n.hash.0 == <TC::R as RefCfg>::stale_value() {
                        "-".to_string()
                    } else {
                        "?".to_string()
                    };
                    abs.push(json!([name, if *fresh { "F" } else { "S" }, ver, val, n.last_epoch]));
                }
            }
        }
        (Some(refhash::ref_root::<TC::R>(&rleaves)), Value::Array(abs))
    }

    fn batch_to_real(&mut self, batch: &Value) -> Vec<(AkdLabel, AkdValue)> {
        batch
            .as_array()
            .unwrap()
            .iter()
            .map(|p| {
                let l = p[0].as_str().unwrap();
                let v = p[1].as_str().unwrap();
                (self.conc.label(l), self.conc.value(v))
            })
            .collect()
    }

    pub async fn publish(&mut self, batch: &Value, tr: &mut Tracer) {
        let real = self.batch_to_real(batch);
        let before = self.roots.len() as u64 - 1;
        let w = self.writer().await;
        let res = w.publish(real).await;
        match res {
            Ok(EpochHash(ep, digest)) => {
                let kind = if ep == before { "noop" } else { "ok" };
                if ep == before + 1 {
                    self.roots.push(digest);
                    for p in batch.as_array().unwrap() {
                        *self.versions.entry(p[0].as_str().unwrap().to_string()).or_insert(0) += 1;
                    }
                }
                let (refroot, leaves) = self.leaves_and_refroot(ep).await;
                tr.emit(json!({"ev": "publish", "batch": batch, "res": kind, "epoch": ep, "root": rid(&digest),
                    "root_ok": refroot == Some(digest), "leaves": leaves,
                    "txn_open": self.manager.is_transaction_active()}));
            }
            Err(_e) => {
                tr.emit(json!({"ev": "publish", "batch": batch, "res": "err", "epoch": before, "root": "-",
                    "root_ok": true, "leaves": [], "txn_open": self.manager.is_transaction_active()}));
            }
        }
    }

    /// Publish `count` labels outside the modelled set (group `tag`; a later call with the same tag updates them).
    pub async fn publish_other(&mut self, st: &Value, tr: &mut Tracer) {
        let count = st["count"].as_u64().unwrap_or(1);
        let tag = st["tag"].as_u64().unwrap_or(0);
        let before = self.roots.len() as u64 - 1;
        let mut vers = self.other_groups.get(&tag).cloned().unwrap_or_default();
        while (vers.len() as u64) < count {
            vers.push(0);
        }
        let n = vers.len() as u64;
        // every label of the group gets a value it did not have before (its next version)
        let round = vers.iter().copied().max().unwrap_or(0) + 1;
        let newver = round;
        let mut real = vec![];
        for i in 0..n {
            let lab = akd::AkdLabel(format!("other/{tag}/{i}").into_bytes());
            real.push((lab, akd::AkdValue(format!("ov{round}").into_bytes())));
        }
        let w = self.writer().await;
        let res = w.publish(real.clone()).await;
        match res {
            Ok(EpochHash(ep, digest)) if ep == before + 1 => {
                self.roots.push(digest);
                let mut reqs = vec![];
                for (i, (lab, _)) in real.iter().enumerate() {
                    vers[i] += 1;
                    reqs.push((lab.clone(), VersionFreshness::Fresh, vers[i]));
                    if vers[i] > 1 {
                        reqs.push((lab.clone(), VersionFreshness::Stale, vers[i] - 1));
                    }
                }
                self.other_groups.insert(tag, vers);
                for (lab, f, v) in reqs {
                    let nl = self.vrf.get_node_label::<TC>(&lab, f, v).await.unwrap();
                    self.other_ident.insert(nl);
                }
                let (refroot, leaves) = self.leaves_and_refroot(ep).await;
                let total = project_tree(&self.db.all_records().await, ep).map(|ns| ns.iter().filter(|x| x.node_type == TreeNodeType::Leaf).count()).unwrap_or(0);
                tr.emit(json!({"ev": "publish_other", "count": n, "tag": tag, "version": newver, "res": "ok", "epoch": ep, "root": rid(&digest),
                    "root_ok": refroot == Some(digest), "leaves": leaves, "other": total - leaves.as_array().unwrap().len(), "other_expected": self.other_ident.len(),
                    "txn_open": self.manager.is_transaction_active()}));
            }
            Ok(EpochHash(ep, digest)) => {
                tr.emit(json!({"ev": "publish_other", "count": n, "tag": tag, "version": newver, "res": "noop", "epoch": ep, "root": rid(&digest), "root_ok": true,
                    "leaves": [], "other": 0, "other_expected": 0, "txn_open": self.manager.is_transaction_active()}));
            }
            Err(_) => {
                tr.emit(json!({"ev": "publish_other", "count": n, "tag": tag, "version": newver, "res": "err", "epoch": before, "root": "-", "root_ok": true,
                    "leaves": [], "other": 0, "other_expected": 0, "txn_open": self.manager.is_transaction_active()}));
            }
        }
    }

    /// A view of this context over another database (a copy at a crash point), read through a
    /// ReadOnlyDirectory on a fresh manager.
    pub async fn fork_readonly(&self, db: HookDb) -> Option<DirCtx<TC>> {
        let mut cell = self.cell.clone();
        cell.reopen = "readonly".to_string();
        let manager = cell.manager(db.clone());
        let dir = Directory::<TC, _, _>::new(manager.clone(), self.vrf.clone(), cell.parallelism()).await.ok()?;
        Some(DirCtx {
            db,
            manager,
            dir,
            vrf: self.vrf.clone(),
            pk: self.pk.clone(),
            ckey: self.ckey,
            conc: self.conc.clone(),
            cell,
            labels: self.labels.clone(),
            values: self.values.clone(),
            roots: self.roots.clone(),
            ident: self.ident.clone(),
            ident_upto: self.ident_upto,
            versions: self.versions.clone(),
            kinds: self.kinds.clone(),
            old_proofs: vec![],
            other_ident: self.other_ident.clone(),
            other_groups: self.other_groups.clone(),
        })
    }

    /// C11: publish with the commit batch captured; observe a second instance at every prefix of the batch
    /// (and seeded random subsets), epoch record excluded; then apply the whole batch and go on.
    pub async fn publish_crash(&mut self, batch: &Value, seed: u64, tr: &mut Tracer) {
        use rand::seq::SliceRandom;
        use rand::{Rng, SeedableRng};
        let real = self.batch_to_real(batch);
        let before = self.roots.len() as u64 - 1;
        let w = self.writer().await;
        self.db.take_captured();
        self.db.set_capture(true);
        let res = w.publish(real).await;
        self.db.set_capture(false);
        let captured = self.db.take_captured();
        if let Some(recs) = captured.last() {
            let n = recs.len();
            let azks_last = matches!(recs.last(), Some(DbRecord::Azks(_)));
            let body: Vec<DbRecord> = recs.iter().filter(|r| !matches!(r, DbRecord::Azks(_))).cloned().collect();
            let mut points: Vec<(String, Vec<DbRecord>)> = vec![];
            for k in 0..=body.len() {
                points.push((format!("prefix{k}"), body[..k].to_vec()));
            }
            let mut rng = rand::rngs::StdRng::seed_from_u64(seed);
            for j in 0..6 {
                let mut idx: Vec<usize> = (0..body.len()).collect();
                idx.shuffle(&mut rng);
                let take = if body.is_empty() { 0 } else { rng.random_range(0..=body.len()) };
                points.push((format!("subset{j}"), idx[..take].iter().map(|i| body[*i].clone()).collect()));
            }
            for (name, subset) in points {
                let copy = self.db.deep_copy().await;
                use akd::storage::Database;
                let _ = copy.inner.batch_set(subset.clone(), akd::storage::DbSetState::General).await;
                tr.emit(json!({"ev": "crash", "point": name, "applied": subset.len(), "of": n, "azks_last": azks_last}));
                match self.fork_readonly(copy).await {
                    Some(mut f) => f.sweep(tr).await,
                    None => tr.emit(json!({"ev": "error", "what": "cannot open second instance at crash point"})),
                }
            }
            // now the whole batch reaches storage
            use akd::storage::Database;
            let _ = self.db.inner.batch_set(recs.clone(), akd::storage::DbSetState::TransactionCommit).await;
        }
        match res {
            Ok(EpochHash(ep, digest)) => {
                let kind = if ep == before { "noop" } else { "ok" };
                if ep == before + 1 {
                    self.roots.push(digest);
                    for p in batch.as_array().unwrap() {
                        *self.versions.entry(p[0].as_str().unwrap().to_string()).or_insert(0) += 1;
                    }
                }
                let (refroot, leaves) = self.leaves_and_refroot(ep).await;
                tr.emit(json!({"ev": "publish", "batch": batch, "res": kind, "epoch": ep, "root": rid(&digest),
                    "root_ok": refroot == Some(digest), "leaves": leaves, "txn_open": self.manager.is_transaction_active()}));
            }
            Err(_e) => {
                tr.emit(json!({"ev": "publish", "batch": batch, "res": "err", "epoch": before, "root": "-",
                    "root_ok": true, "leaves": [], "txn_open": self.manager.is_transaction_active()}));
            }
        }
    }

    /// A full copy of this context over a deep copy of the database, with a manager of the same cache
    /// kind (warmed by one sweep so that its cache holds the current epoch) and the same cell.
    pub async fn fork_same(&self, warm: bool) -> DirCtx<TC> {
        let db = self.db.deep_copy().await;
        let manager = self.cell.manager(db.clone());
        let dir = Directory::<TC, _, _>::new(manager.clone(), self.vrf.clone(), self.cell.parallelism()).await.unwrap();
        let mut f = DirCtx {
            db,
            manager,
            dir,
            vrf: self.vrf.clone(),
            pk: self.pk.clone(),
            ckey: self.ckey,
            conc: self.conc.clone(),
            cell: self.cell.clone(),
            labels: self.labels.clone(),
            values: self.values.clone(),
            roots: self.roots.clone(),
            ident: self.ident.clone(),
            ident_upto: self.ident_upto,
            versions: self.versions.clone(),
            kinds: self.kinds.clone(),
            old_proofs: vec![],
            other_ident: self.other_ident.clone(),
            other_groups: self.other_groups.clone(),
        };
        if warm {
            let mut scratch = Tracer::new();
            f.sweep(&mut scratch).await;
        }
        f
    }

    /// C10: the publish is executed once per storage operation index k with operation k failing
    /// (Connection error); after each failed call: sweep on the same instance, sweep on a fresh
    /// instance over the same storage, then a retry that must succeed.
    pub async fn publish_fault_sweep(&mut self, batch: &Value, alt: &Value, tr: &mut Tracer) {
        // learn the number of storage operations of this publish on a scratch copy
        let mut probe = self.fork_same(true).await;
        probe.db.reset_counter();
        let mut scratch = Tracer::new();
        probe.publish(batch, &mut scratch).await;
        let n = probe.db.ops();
        tr.emit(json!({"ev": "save"}));
        for k in 1..=n {
            let mut f = self.fork_same(true).await;
            f.db.reset_counter();
            f.db.set_fail_at(k);
            f.db.set_log(true);
            let real = f.batch_to_real(batch);
            let before = f.roots.len() as u64 - 1;
            let w = f.writer().await;
            let res = w.publish(real).await;
            // let any task the publish spawned (parallel insertion) and abandoned run on
            for _ in 0..50 {
                tokio::task::yield_now().await;
            }
            let oplog = f.db.take_log();
            f.db.set_log(false);
            f.db.reset_counter();
            let failed_op = oplog.iter().find(|o| o.failed).map(|o| o.kind).unwrap_or("-");
            tr.emit(json!({"ev": "restore"}));
            match res {
                Ok(EpochHash(ep, digest)) => {
                    // the failing operation was tolerated (or never reached): a normal publish
                    let kind = if ep == before { "noop" } else { "ok" };
                    if ep == before + 1 {
                        f.roots.push(digest);
                        for p in batch.as_array().unwrap() {
                            *f.versions.entry(p[0].as_str().unwrap().to_string()).or_insert(0) += 1;
                        }
                    }
                    let (refroot, leaves) = f.leaves_and_refroot(ep).await;
                    tr.emit(json!({"ev": "publish_fault", "k": k, "n": n, "failed_op": failed_op, "batch": batch, "res": kind, "epoch": ep, "root": rid(&digest),
                        "root_ok": refroot == Some(digest), "leaves": leaves, "txn_open": f.manager.is_transaction_active()}));
                }
                Err(_) => {
                    tr.emit(json!({"ev": "publish_fault", "k": k, "n": n, "failed_op": failed_op, "batch": batch, "res": "err", "epoch": before, "root": "-",
                        "root_ok": true, "leaves": [], "txn_open": f.manager.is_transaction_active()}));
                }
            }
            // same instance (with its cache)
            f.sweep(tr).await;
            // a fresh instance over the same storage
            tr.emit(json!({"ev": "reopen", "kind": "fresh_instance"}));
            let mut g = f.fork_same(false).await;
            g.sweep(tr).await;
            // a later publish on the same instance: the same batch again, or (every other k) a different one
            if k % 2 == 0 && alt.is_array() {
                f.publish(alt, tr).await;
            } else {
                f.publish(batch, tr).await;
            }
            f.sweep(tr).await;
        }
        tr.emit(json!({"ev": "restore"}));
    }

    /// C13: a second (read-only) instance with its own cached manager over the same database.
    /// Its cache is warmed now; later reads through it are served by an instance that may have
    /// fallen behind storage by any number of epochs.
    pub async fn open_remote(&self, cache: &str) -> DirCtx<TC> {
        let mut cell = self.cell.clone();
        cell.cache = cache.to_string();
        cell.reopen = "readonly".to_string();
        let manager = cell.manager(self.db.clone());
        let dir = Directory::<TC, _, _>::new(manager.clone(), self.vrf.clone(), cell.parallelism()).await.unwrap();
        let mut r = DirCtx {
            db: self.db.clone(),
            manager,
            dir,
            vrf: self.vrf.clone(),
            pk: self.pk.clone(),
            ckey: self.ckey,
            conc: self.conc.clone(),
            cell,
            labels: self.labels.clone(),
            values: self.values.clone(),
            roots: self.roots.clone(),
            ident: HashMap::new(),
            ident_upto: 0,
            versions: self.versions.clone(),
            kinds: self.kinds.clone(),
            old_proofs: vec![],
            other_ident: self.other_ident.clone(),
            other_groups: self.other_groups.clone(),
        };
        let mut scratch = Tracer::new();
        r.sweep(&mut scratch).await;
        r
    }

    /// answers of a possibly lagging instance: recorded as `ranswer` events (error, or a published pair)
    pub async fn remote_reads(&mut self, roots_now: &[Digest], versions_now: &HashMap<String, u64>, tr: &mut Tracer) {
        self.roots = roots_now.to_vec();
        self.versions = versions_now.clone();
        let mut inner = Tracer::new();
        self.sweep(&mut inner).await;
        for line in inner.buf {
            let mut v: Value = serde_json::from_str(&line).unwrap();
            let kind = v["ev"].as_str().unwrap().to_string();
            v["kind"] = json!(kind);
            v["ev"] = json!("ranswer");
            tr.emit(v);
        }
    }

    pub async fn tombstone(&mut self, label: &str, cut: u64, tr: &mut Tracer) {
        let l = self.conc.label(label);
        let res = self.manager.tombstone_value_states(&l, cut).await;
        tr.emit(json!({"ev": "tombstone", "label": label, "cut": cut, "res": if res.is_ok() {"ok"} else {"err"}}));
    }

    fn vr_json(&self, r: &akd::VerifyResult) -> Value {
        json!([self.conc.value_name(&r.value.0), r.version, r.epoch])
    }

    fn known_root(&self, eh: &EpochHash) -> String {
        // the id carries the digest; TLC compares it with the id published for that epoch
        rid(&eh.1)
    }

    pub async fn ev_epoch_hash(&mut self, tr: &mut Tracer) {
        let r = self.reader().await;
        match r.get_epoch_hash().await {
            Ok(eh) => tr.emit(json!({"ev": "epoch_hash", "res": "ok", "epoch": eh.0, "root": self.known_root(&eh)})),
            Err(_) => tr.emit(json!({"ev": "epoch_hash", "res": "err", "epoch": 0, "root": "-"})),
        }
    }

    pub async fn ev_lookup(&mut self, label: &str, tr: &mut Tracer) {
        let l = self.conc.label(label);
        let r = self.reader().await;
        match r.lookup(l.clone()).await {
            Err(_) => tr.emit(json!({"ev": "lookup", "label": label, "res": "err", "epoch": 0, "root": "-", "out": []})),
            Ok((proof, eh)) => {
                let wire = if self.cell.wire {
                    Some(crate::wire::wire_lookup::<TC>(&self.pk, &eh, &l, &proof))
                } else {
                    None
                };
                if self.wants_exact("forge_lookup") {
                    self.old_proofs.push((label.to_string(), eh.0, proof.clone()));
                }
                match akd::client::lookup_verify::<TC>(&self.pk, eh.1, eh.0, l, proof) {
                    Ok(vr) => tr.emit(
                        json!({"ev": "lookup", "label": label, "res": "ok", "epoch": eh.0, "root": self.known_root(&eh), "out": self.vr_json(&vr)}),
                    ),
                    Err(_) => tr.emit(
                        json!({"ev": "lookup", "label": label, "res": "unverified", "epoch": eh.0, "root": self.known_root(&eh), "out": []}),
                    ),
                }
                if let Some(w) = wire {
                    tr.emit(w);
                }
            }
        }
    }

    pub async fn ev_batch_lookup(&mut self, labels: &[String], tr: &mut Tracer) {
        let ls: Vec<AkdLabel> = labels.iter().map(|n| self.conc.label(n)).collect();
        let r = self.reader().await;
        match r.batch_lookup(&ls).await {
            Err(_) => tr.emit(json!({"ev": "batch_lookup", "labels": labels, "res": "err", "epoch": 0, "root": "-", "outs": []})),
            Ok((proofs, eh)) => {
                let mut outs = vec![];
                let mut ok = proofs.len() == ls.len();
                for (l, p) in ls.iter().zip(proofs.into_iter()) {
                    match akd::client::lookup_verify::<TC>(&self.pk, eh.1, eh.0, l.clone(), p) {
                        Ok(vr) => outs.push(self.vr_json(&vr)),
                        Err(_) => ok = false,
                    }
                }
                tr.emit(json!({"ev": "batch_lookup", "labels": labels, "res": if ok {"ok"} else {"unverified"},
                    "epoch": eh.0, "root": self.known_root(&eh), "outs": outs}));
            }
        }
    }

    pub async fn ev_history(&mut self, label: &str, n: u64, allow: bool, tr: &mut Tracer) {
        let l = self.conc.label(label);
        let hp = if n == 0 {
            HistoryParams::Complete
        } else {
            HistoryParams::MostRecent(if n == HUGE_N { usize::MAX } else { n as usize })
        };
        let vp = if allow {
            HistoryVerificationParams::AllowMissingValues { history_params: hp }
        } else {
            HistoryVerificationParams::Default { history_params: hp }
        };
        let mode = if allow { "allow" } else { "default" };
        let r = self.reader().await;
        match r.key_history(&l, hp).await {
            Err(_) => tr.emit(
                json!({"ev": "history", "label": label, "n": n, "mode": mode, "res": "err", "epoch": 0, "root": "-", "out": []}),
            ),
            Ok((proof, eh)) => {
                let wire = if self.cell.wire {
                    Some(crate::wire::wire_history::<TC>(&self.pk, &eh, &l, &proof, vp))
                } else {
                    None
                };
                match akd::client::key_history_verify::<TC>(&self.pk, eh.1, eh.0, l, proof, vp) {
                    Ok(vrs) => {
                        let out: Vec<Value> = vrs.iter().map(|v| self.vr_json(v)).collect();
                        tr.emit(json!({"ev": "history", "label": label, "n": n, "mode": mode, "res": "ok",
                            "epoch": eh.0, "root": self.known_root(&eh), "out": out}));
                    }
                    Err(_) => tr.emit(json!({"ev": "history", "label": label, "n": n, "mode": mode, "res": "rejected",
                        "epoch": eh.0, "root": self.known_root(&eh), "out": []})),
                }
                if let Some(w) = wire {
                    tr.emit(w);
                }
            }
        }
    }

    pub async fn ev_audit(&mut self, s: u64, e: u64, tr: &mut Tracer) {
        let r = self.reader().await;
        match r.audit(s, e).await {
            Err(_) => tr.emit(json!({"ev": "audit", "s": s, "e": e, "res": "refused", "roots": []})),
            Ok(proof) => {
                let cur = self.roots.len() as u64 - 1;
                if e > cur {
                    tr.emit(json!({"ev": "audit", "s": s, "e": e, "res": "served_beyond", "roots": []}));
                    return;
                }
                let hashes: Vec<Digest> = (s..=e).map(|i| self.roots[i as usize]).collect();
                let ids: Vec<String> = hashes.iter().map(rid).collect();
                let wire = if self.cell.wire {
                    Some(crate::wire::wire_audit::<TC>(&hashes, &proof).await)
                } else {
                    None
                };
                let tamper = self.wants_exact("audit_tamper");
                let (h2, p2) = (hashes.clone(), proof.clone());
                let ok = akd::auditor::audit_verify::<TC>(hashes, proof).await.is_ok();
                tr.emit(json!({"ev": "audit", "s": s, "e": e, "res": if ok {"ok"} else {"rejected"}, "roots": ids}));
                if tamper && ok {
                    self.audit_tampers(s, e, h2, p2, tr).await;
                }
                if let Some(w) = wire {
                    tr.emit(w);
                }
            }
        }
    }

    /// The full observation sweep of the current state.
    fn wants_exact(&self, k: &str) -> bool {
        self.kinds.iter().any(|x| x == k)
    }

    /// C09: inconsistent lists and replaced digests must make audit_verify fail
    async fn audit_tampers(&mut self, s: u64, e: u64, hashes: Vec<Digest>, proof: akd::AppendOnlyProof, tr: &mut Tracer) {
        let mut cases: Vec<(String, u64, Vec<Digest>, akd::AppendOnlyProof)> = vec![];
        let n = hashes.len();
        let mut h = hashes.clone();
        h.pop();
        cases.push(("drop_last_hash".into(), 0, h, proof.clone()));
        let mut h = hashes.clone();
        h.push(hashes[n - 1]);
        cases.push(("extra_hash".into(), 0, h, proof.clone()));
        let mut p = proof.clone();
        p.proofs.pop();
        cases.push(("drop_proof".into(), 0, hashes.clone(), p));
        let mut p = proof.clone();
        p.epochs.pop();
        cases.push(("drop_epoch".into(), 0, hashes.clone(), p));
        for k in 0..n {
            let mut h = hashes.clone();
            h[k][7] ^= 0x40;
            cases.push(("flip_hash_bit".into(), k as u64, h, proof.clone()));
            for (j, other) in self.roots.clone().iter().enumerate() {
                if *other != hashes[k] {
                    let mut h = hashes.clone();
                    h[k] = *other;
                    cases.push((format!("hash_of_epoch_{j}"), k as u64, h, proof.clone()));
                }
            }
        }
        for k in 0..proof.epochs.len() {
            let mut p = proof.clone();
            p.epochs[k] += 1;
            cases.push(("epoch_plus_one".into(), k as u64, hashes.clone(), p));
        }
        // splice: step k (k >= 1) replaced by a step that does not start from hashes[k]; the following hash is
        // whatever the auditor computes for it (the server is free to publish it). Must be rejected because the
        // spliced step's unchanged nodes do not reproduce hashes[k].
        for k in 1..proof.proofs.len() {
            let donor = proof.proofs[0].clone();
            let end_epoch = proof.epochs[k] + 1;
            let mut end_set = donor.unchanged_nodes.clone();
            end_set.extend(donor.inserted.iter().map(|x| akd::AzksElement {
                label: x.label,
                value: akd::AzksValue(TC::hash_leaf_with_commitment(x.value, end_epoch).0),
            }));
            if let Some(hx) = auditor_end_hash::<TC>(end_set, end_epoch - 1).await {
                let mut p = proof.clone();
                p.proofs[k] = donor;
                p.proofs.truncate(k + 1);
                p.epochs.truncate(k + 1);
                let mut h = hashes.clone();
                h.truncate(k + 1);
                h.push(hx);
                cases.push(("splice_step".into(), k as u64, h, p));
            }
        }
        for (kind, k, h, p) in cases.into_iter() {
            let accepted = akd::auditor::audit_verify::<TC>(h, p).await.is_ok();
            tr.emit(json!({"ev": "audit_tamper", "s": s, "e": e, "kind": kind, "k": k, "accepted": accepted}));
        }
    }

    /// C06 / C07: the adversarial server on this (honest) directory. The grids are enumerated here,
    /// every verdict is judged by TLC against AkdProofGame.
    pub async fn forge_events(&mut self, tr: &mut Tracer, do_lookup: bool, do_history: bool) {
        use akd::storage::types::DbRecord as R;
        let azks = match self.manager.get::<akd::Azks>(&akd::append_only_zks::DEFAULT_AZKS_KEY).await {
            Ok(R::Azks(a)) => a,
            _ => return,
        };
        let e = azks.latest_epoch;
        let f = crate::forge::Forge::<TC>::over(self.manager.clone(), azks).await;
        let labels = self.labels.clone();
        let values = self.values.clone();
        let mut jobs = vec![];
        for l in labels.iter() {
            let total = self.versions.get(l).copied().unwrap_or(0);
            if do_lookup {
                for ver in 1..=(total + 1).min(e + 1) {
                    for val in values.iter() {
                        for ep in 1..=e.max(1) {
                            let marker = 1u64 << (63 - ver.leading_zeros());
                            jobs.push(json!({"kind": "lookup", "label": l, "claim": [val, ver, ep], "marker": marker}));
                        }
                    }
                    // a superseded version served with an absence "proof" of its stale marker from a shallow anchor
                    if ver < total {
                        if let Some(st) = self.true_entry(l, ver).await {
                            let marker = 1u64 << (63 - ver.leading_zeros());
                            for up in 1..=4u64 {
                                jobs.push(json!({"kind": "lookup", "label": l, "claim": [st.0, ver, st.1], "marker": marker, "up": up}));
                            }
                        }
                    }
                    // a marker proof for another version than the one the verifier expects
                    if ver >= 3 {
                        jobs.push(json!({"kind": "lookup", "label": l, "claim": [values[0], ver, 1], "marker": ver}));
                    }
                }
                // a version beyond the current epoch
                jobs.push(json!({"kind": "lookup", "label": l, "claim": [values[0], e + 1, e.max(1)], "marker": 1u64 << (63 - (e + 1).leading_zeros())}));
            }
            if do_history && total >= 1 {
                // the true list, newest first, taken from the honest server's complete history
                let lab = self.conc.label(l);
                let base: Vec<(String, u64, u64)> = match self.dir.key_history(&lab, HistoryParams::Complete).await {
                    Ok((hp, _)) => hp.update_proofs.iter().map(|u| (self.conc.value_name(&u.value.0), u.version, u.epoch)).collect(),
                    Err(_) => continue,
                };
                let t = base.len();
                let mk = |claims: &Vec<(String, u64, u64)>, n: u64, mode: &str, dp: i64, df: i64| -> Value {
                    let vers: Vec<u64> = claims.iter().map(|c| c.1).collect();
                    let start = vers.iter().copied().min().unwrap_or(1).max(1);
                    let end = vers.iter().copied().max().unwrap_or(1).max(1).min(e.max(1));
                    let (mut past, mut fut) = akd_core::utils::get_marker_versions(start, end.max(start), e.max(end.max(start)));
                    if dp < 0 { past.pop(); }
                    if dp > 0 { past.push(start); }
                    if df < 0 { fut.pop(); }
                    if df > 0 { fut.push(e + 1); }
                    json!({"kind": "history", "label": l, "claims": claims.iter().map(|c| json!([c.0, c.1, c.2])).collect::<Vec<_>>(),
                        "past": past, "future": fut, "n": n, "mode": mode})
                };
                let other_val = |v: &str| -> String { values.iter().find(|x| x.as_str() != v).cloned().unwrap_or("x".into()) };
                for mode in ["default", "allow"] {
                    // as is, under every parameter
                    for n in 0..=(t as u64 + 1) {
                        jobs.push(mk(&base, n, mode, 0, 0));
                    }
                    for k in 1..t {
                        // drop the newest k / the oldest k
                        let newest_dropped: Vec<_> = base[k..].to_vec();
                        jobs.push(mk(&newest_dropped, 0, mode, 0, 0));
                        for up in 1..=3u64 {
                            // ... with the absence of the hidden versions "proved" from shallow anchors
                            let mut j = mk(&newest_dropped, 0, mode, 0, 0);
                            j["up"] = json!(up);
                            jobs.push(j);
                        }
                        jobs.push(mk(&newest_dropped, (t - k) as u64, mode, 0, 0));
                        let oldest_dropped: Vec<_> = base[..t - k].to_vec();
                        jobs.push(mk(&oldest_dropped, 0, mode, 0, 0));
                        jobs.push(mk(&oldest_dropped, (t - k) as u64, mode, 0, 0));
                        jobs.push(mk(&oldest_dropped, (t - k) as u64 + 1, mode, 0, 0));
                    }
                    for i in 0..t {
                        let mut c = base.clone();
                        c.remove(i);
                        if !c.is_empty() {
                            jobs.push(mk(&c, 0, mode, 0, 0));
                        }
                        let mut c = base.clone();
                        c.insert(i, base[i].clone());
                        jobs.push(mk(&c, 0, mode, 0, 0));
                        if i + 1 < t {
                            let mut c = base.clone();
                            c.swap(i, i + 1);
                            jobs.push(mk(&c, 0, mode, 0, 0));
                        }
                        // an inner entry overwritten by a copy of a neighbour: a gap hidden behind a duplicate
                        // (first version, last version and length unchanged)
                        if i >= 1 && i + 1 < t {
                            let mut c = base.clone();
                            c[i] = base[i - 1].clone();
                            jobs.push(mk(&c, 0, mode, 0, 0));
                            jobs.push(mk(&c, t as u64, mode, 0, 0));
                            let mut c = base.clone();
                            c[i] = base[i + 1].clone();
                            jobs.push(mk(&c, 0, mode, 0, 0));
                        }
                        let mut c = base.clone();
                        c[i].0 = other_val(&base[i].0);
                        jobs.push(mk(&c, 0, mode, 0, 0));
                        let mut c = base.clone();
                        c[i].0 = "e".to_string();
                        jobs.push(mk(&c, 0, mode, 0, 0));
                        let mut c = base.clone();
                        c[i].2 += 1;
                        jobs.push(mk(&c, 0, mode, 0, 0));
                        if base[i].2 > 1 {
                            let mut c = base.clone();
                            c[i].2 -= 1;
                            jobs.push(mk(&c, 0, mode, 0, 0));
                        }
                    }
                    // the oldest entry (version 1 in a complete history) presented as a tombstone with a shifted epoch
                    if mode == "allow" && base[t - 1].1 == 1 && t >= 2 && base[t - 1].2 + 1 <= base[t - 2].2 {
                        let mut c = base.clone();
                        c[t - 1].0 = "e".to_string();
                        c[t - 1].2 += 1;
                        let mut j = mk(&c, 0, mode, 0, 0);
                        j["tag"] = json!("unbound_epoch_probe");
                        jobs.push(j);
                    }
                    // invented newer version
                    let mut c = base.clone();
                    c.insert(0, (values[0].clone(), t as u64 + 1, e));
                    jobs.push(mk(&c, 0, mode, 0, 0));
                    // marker lists with one proof too few / too many
                    for (dp, df) in [(-1, 0), (1, 0), (0, -1), (0, 1)] {
                        jobs.push(mk(&base, 0, mode, dp, df));
                    }
                }
            }
        }
        if do_lookup {
            // sub-proofs taken from another label's honest proof
            for l in labels.iter() {
                let total = self.versions.get(l).copied().unwrap_or(0);
                for o in labels.iter() {
                    let ototal = self.versions.get(o).copied().unwrap_or(0);
                    if o == l || total == 0 || ototal == 0 {
                        continue;
                    }
                    for part in ["existence", "existence_path_only", "marker", "freshness", "nonce"] {
                        jobs.push(json!({"kind": "lookup_mix", "label": l, "other": o, "over": ototal, "part": part, "claim": [values[0], total, e.max(1)]}));
                    }
                }
            }
            // honest proofs of earlier epochs against the current root
            let root = f.root().await;
            let old = self.old_proofs.clone();
            for (l, from_epoch, proof) in old {
                let lab = self.conc.label(&l);
                let (verdict, out) = f.verify_lookup(root, e, &lab, proof, &self.conc);
                tr.emit(json!({"ev": "forge_stale", "label": l, "from_epoch": from_epoch, "verdict": verdict, "out": out}));
            }
        }
        let jobs = Value::Array(jobs);
        let mut conc = self.conc.clone();
        conc.value("e");
        crate::forge::run_jobs(&f, &mut conc, e, &jobs, tr).await;
    }

    /// (value name, epoch) of version `ver` of a label, from the honest server's own history
    async fn true_entry(&mut self, l: &str, ver: u64) -> Option<(String, u64)> {
        let lab = self.conc.label(l);
        let (hp, _) = self.dir.key_history(&lab, HistoryParams::Complete).await.ok()?;
        hp.update_proofs.iter().find(|u| u.version == ver).map(|u| (self.conc.value_name(&u.value.0), u.epoch))
    }

    fn wants(&self, k: &str) -> bool {
        self.kinds.is_empty() || self.kinds.iter().any(|x| x == k)
    }

    pub async fn sweep(&mut self, tr: &mut Tracer) {
        if self.wants("epoch_hash") {
            self.ev_epoch_hash(tr).await;
        }
        let labels = self.labels.clone();
        let published: Vec<String> = labels
            .iter()
            .filter(|l| self.versions.get(*l).copied().unwrap_or(0) > 0)
            .cloned()
            .collect();
        if self.wants("lookup") {
            for l in labels.iter() {
                self.ev_lookup(l, tr).await;
            }
            self.ev_lookup("zz", tr).await;
            if !published.is_empty() {
                self.ev_batch_lookup(&published, tr).await;
            }
            if published.len() < labels.len() {
                // a batch containing a never-published label must fail as a whole
                self.ev_batch_lookup(&labels, tr).await;
            }
        }
        if self.wants("history") {
            for l in labels.iter() {
                let total = self.versions.get(l).copied().unwrap_or(0);
                if total == 0 {
                    self.ev_history(l, 0, false, tr).await;
                    continue;
                }
                for allow in [false, true] {
                    self.ev_history(l, 0, allow, tr).await;
                    for n in 1..=(total + 1) {
                        self.ev_history(l, n, allow, tr).await;
                    }
                    // "larger than the number of versions" at the far end: the trace says 2^31 - 1 (TLC integers are 32 bit),
                    // the request is MostRecent(usize::MAX)
                    self.ev_history(l, HUGE_N, allow, tr).await;
                }
            }
        }
        if self.wants_exact("forge_lookup") || self.wants_exact("forge_history") {
            let (a, b) = (self.wants_exact("forge_lookup"), self.wants_exact("forge_history"));
            self.forge_events(tr, a, b).await;
        }
        if self.wants("audit") {
            let cur = self.roots.len() as u64 - 1;
            for s in 0..=cur {
                for e in (s + 1)..=cur {
                    self.ev_audit(s, e, tr).await;
                }
            }
            // refused ranges
            self.ev_audit(cur, cur, tr).await;
            self.ev_audit(0, cur + 1, tr).await;
            if cur >= 1 {
                self.ev_audit(cur, cur - 1, tr).await;
                self.ev_audit(cur - 1, cur + 1, tr).await;
            }
        }
    }
}

/// Replay one behaviour.
pub async fn run_behaviour<TC: HasRef>(b: &Value, tr: &mut Tracer) {
    let cell = Cell::from_json(&b["cell"]);
    let labels: Vec<String> = b["labels"].as_array().unwrap().iter().map(|x| x.as_str().unwrap().to_string()).collect();
    let values: Vec<String> = b["values"].as_array().unwrap().iter().map(|x| x.as_str().unwrap().to_string()).collect();
    let conc = b["conc"].as_u64().unwrap_or(0);
    // bootstrap: a read-only directory refuses storage without an epoch record; a directory creates it;
    // opening again finds it (epoch 0, nothing else changes)
    let boot = {
        let db = HookDb::new();
        let m = cell.manager(db.clone());
        let ro_empty = ReadOnlyDirectory::<TC, _, _>::new(m.clone(), HardCodedAkdVRF {}, cell.parallelism()).await.is_ok();
        let d1 = Directory::<TC, _, _>::new(m.clone(), HardCodedAkdVRF {}, cell.parallelism()).await;
        let e1 = match &d1 {
            Ok(d) => d.get_epoch_hash().await.map(|e| e.0 as i64).unwrap_or(-1),
            Err(_) => -1,
        };
        let ro_after = ReadOnlyDirectory::<TC, _, _>::new(cell.manager(db.clone()), HardCodedAkdVRF {}, cell.parallelism()).await.is_ok();
        let d2 = Directory::<TC, _, _>::new(cell.manager(db.clone()), HardCodedAkdVRF {}, cell.parallelism()).await;
        let same_root = match (&d1, &d2) {
            (Ok(a), Ok(b)) => a.get_epoch_hash().await.ok() == b.get_epoch_hash().await.ok(),
            _ => false,
        };
        json!({"ev": "bootstrap", "readonly_on_empty": ro_empty, "epoch_after_new": e1, "readonly_after_new": ro_after, "reopen_same_root": same_root})
    };
    let mut ctx = DirCtx::<TC>::new(conc, cell.clone(), labels, values).await;
    if let Some(k) = b["kinds"].as_array() {
        ctx.kinds = k.iter().map(|x| x.as_str().unwrap().to_string()).collect();
    }
    // make sure the value universe is concretized (so that value_name can find them)
    for v in ctx.values.clone() {
        ctx.conc.value(&v);
    }
    tr.emit(json!({"ev": "reset", "cfg": TC::NAME, "conc": conc, "cell": cell.to_json(), "root0": rid(&ctx.roots[0]),
        "id": b["id"]}));
    tr.emit(boot);
    let sweep_every = b["sweep"].as_str().unwrap_or("end") == "every";
    let mut remote: Option<DirCtx<TC>> = None;
    let steps = b["steps"].as_array().unwrap();
    for (i, st) in steps.iter().enumerate() {
        match st["op"].as_str().unwrap() {
            "publish" => ctx.publish(&st["batch"], tr).await,
            "publish_fault_sweep" => ctx.publish_fault_sweep(&st["batch"], &st["alt"], tr).await,
            "remote_open" => {
                remote = Some(ctx.open_remote(st["cache"].as_str().unwrap_or("default")).await);
                tr.emit(json!({"ev": "reopen", "kind": "remote_open"}));
            }
            "remote_poll" => {
                // C13: the remote instance's change poller; once it has signalled, later answers must be at least that new
                if let Some(r) = remote.as_mut() {
                    let (tx, mut rx) = tokio::sync::mpsc::channel::<()>(4);
                    let d = r.dir.clone();
                    let h = tokio::spawn(async move {
                        let _ = d.poll_for_azks_changes(Duration::from_millis(1), Some(tx)).await;
                    });
                    let got = tokio::time::timeout(Duration::from_secs(10), rx.recv()).await;
                    h.abort();
                    match got {
                        Ok(Some(())) => tr.emit(json!({"ev": "notify", "epoch": ctx.roots.len() as u64 - 1, "res": "ok"})),
                        _ => tr.emit(json!({"ev": "notify", "epoch": 0, "res": "none"})),
                    }
                }
            }
            "remote_read" => {
                if let Some(r) = remote.as_mut() {
                    if r.cell.cache == "short" {
                        tokio::time::sleep(Duration::from_millis(4)).await;
                    }
                    r.remote_reads(&ctx.roots, &ctx.versions, tr).await;
                }
            }
            "publish_other" => ctx.publish_other(st, tr).await,
            "publish_crash" => ctx.publish_crash(&st["batch"], b["seed"].as_u64().unwrap_or(1) + i as u64, tr).await,
            "tombstone" => {
                ctx.tombstone(st["label"].as_str().unwrap(), st["cut"].as_u64().unwrap(), tr)
                    .await
            }
            other => panic!("unknown step {other}"),
        }
        if sweep_every || i + 1 == steps.len() {
            ctx.sweep(tr).await;
        }
    }
    if steps.is_empty() {
        ctx.sweep(tr).await;
    }
}

pub async fn run_behaviour_dyn(b: &Value, tr: &mut Tracer) {
    match b["cfg"].as_str().unwrap_or("wa") {
        "wa" => run_behaviour::<Wa>(b, tr).await,
        "exp" => run_behaviour::<Exp>(b, tr).await,
        other => panic!("cfg {other}"),
    }
}

/// Run behaviours on `threads` OS threads (each with its own current-thread runtime); every
/// behaviour runs in its own task so that a panic inside akd becomes a `panic` event (data),
/// not a crash of the harness. Writes trace_<t>.ndjson files; returns (behaviours, events).
pub fn run_parallel<F, Fut>(behaviours: Vec<Value>, out: &str, threads: usize, f: F) -> (usize, usize)
where
    F: Fn(Value) -> Fut + Send + Sync + Clone + 'static,
    Fut: std::future::Future<Output = Tracer> + Send + 'static,
{
    std::fs::create_dir_all(out).unwrap();
    let n = behaviours.len();
    // behaviours carrying the same "group" number are kept in the same trace file (same TLC run)
    let mut chunks: Vec<Vec<Value>> = (0..threads).map(|_| vec![]).collect();
    for (i, b) in behaviours.into_iter().enumerate() {
        let slot = b["group"].as_u64().map(|g| g as usize).unwrap_or(i) % threads;
        chunks[slot].push(b);
    }
    let mut handles = vec![];
    for (t, chunk) in chunks.into_iter().enumerate() {
        let out = out.to_string();
        let f = f.clone();
        handles.push(std::thread::spawn(move || {
            use std::io::Write;
            let path = format!("{out}/trace_{t}.ndjson");
            let file = std::fs::File::create(&path).unwrap_or_else(|e| panic!("create {path}: {e}"));
            let mut w = std::io::BufWriter::new(file);
            let mut count = 0usize;
            let rt = tokio::runtime::Builder::new_current_thread().enable_all().build().unwrap();
            rt.block_on(async {
                for b in chunk.into_iter() {
                    let id = b["id"].clone();
                    // events are streamed to the file behaviour by behaviour (a long run must not sit in memory)
                    let lines = match tokio::spawn(f(b)).await {
                        Ok(tr) => tr.buf,
                        Err(e) => vec![json!({"ev": "panic", "id": id, "msg": format!("{e}")}).to_string()],
                    };
                    for l in lines.iter() {
                        w.write_all(l.as_bytes()).unwrap();
                        w.write_all(b"\n").unwrap();
                    }
                    count += lines.len();
                }
            });
            w.flush().unwrap();
            count
        }));
    }
    let mut total = 0;
    for h in handles {
        total += h.join().expect("worker thread panicked");
    }
    (n, total)
}

/// `akdv dir --in <behaviours.ndjson> --out <dir> [--threads N]`
pub fn main_dir(args: &[String]) {
    let input = arg_val(args, "--in").expect("--in");
    let out = arg_val(args, "--out").expect("--out");
    let threads: usize = arg_val(args, "--threads").map(|s| s.parse().unwrap()).unwrap_or(8);
    let behaviours = read_ndjson(&input);
    let (n, total) = run_parallel(behaviours, &out, threads, |b| async move {
        if b["mt"].as_bool().unwrap_or(false) {
            // the same behaviour on a multi-thread runtime: tasks that akd spawns (parallel insertion, preload, parallel VRF)
            // really run in parallel and finish in any order
            return tokio::task::spawn_blocking(move || {
                let rt = tokio::runtime::Builder::new_multi_thread().worker_threads(4).enable_all().build().unwrap();
                rt.block_on(async move {
                    let mut tr = Tracer::new();
                    run_behaviour_dyn(&b, &mut tr).await;
                    tr
                })
            })
            .await
            .unwrap();
        }
        let mut tr = Tracer::new();
        run_behaviour_dyn(&b, &mut tr).await;
        tr
    });
    println!("{}", json!({"behaviours": n, "events": total}));
}
