----------------------------- MODULE TraceLabels -----------------------------
(* Validates recorded results of the real NodeLabel / AzksElementSet          *)
(* operations (on stretched labels) against their bit-string meaning.         *)
EXTENDS AkdLabels, Json, IOUtils, TLC, SequencesExt

VARIABLE pos
Rec == ndJsonDeserialize(IOEnv.TRACE)
Ev == Rec[pos]
IsEv(e) == pos <= Len(Rec) /\ Ev.ev = e /\ pos' = pos + 1

TInit == pos = 1 /\ TLCSet(1, 1)

TPrefixes ==
  /\ IsEv("prefixes")
  /\ Len(Ev.out) = Len(Ev.a) + 1
  /\ \A j \in 0..Len(Ev.a) : Ev.out[j + 1] = Prefix(Ev.a, j)

TPairs ==
  /\ IsEv("pairs")
  /\ \A i \in 1..Len(Ev.row) :
       LET r == Ev.row[i]
           a == Ev.a
           b == r[1]
       IN /\ r[2] = IsPrefixOf(a, b)
          /\ r[3] = IsPrefixOf(a, b)          \* garbage beyond label_len of `a` is ignored
          /\ r[4] = Lcp(a, b)
          /\ r[5] = Dir(a, b)
          /\ r[6] = Dir(a, b)                 \* garbage beyond label_len of `a` is ignored
          /\ r[7] = LabelCmp(a, b)

SideOK(js, expected) == ToSet(js) = expected /\ Len(js) = Cardinality(expected)

(* contains_prefix is only used with a prefix no longer than the elements (tree node labels against  *)
(* 256-bit leaves); for a longer "prefix" the binary-search variant compares raw bytes and the       *)
(* property does not speak about it, so it is judged on that domain only.                             *)
OpsOK(o, S, p) ==
  /\ (\A q \in S : Len(p) <= Len(q)) => o.contains = ContainsPrefix(S, p)
  /\ o.lcp = SetLcp(S)
  /\ IsPrefixOf(p, SetLcp(S)) => (SideOK(o.left, PartLeft(S, p)) /\ SideOK(o.right, PartRight(S, p)))

TSetOps ==
  /\ IsEv("setops")
  /\ LET S == ToSet(Ev.set) IN
     /\ OpsOK(Ev.nat, S, Ev.p)
     /\ OpsOK(Ev.uns, S, Ev.p)
     /\ ~Ev.uns.bs
     /\ Ev.nat.bs = (\A a \in S : \A b \in S : Len(a) = Len(b))

TNext == (TPrefixes \/ TPairs \/ TSetOps)

Track == TLCSet(1, IF pos > TLCGet(1) THEN pos ELSE TLCGet(1))
Accepted ==
  LET reached == TLCGet(1) IN
  IF reached = Len(Rec) + 1
    THEN PrintT(<<"TRACE-ACCEPTED", Len(Rec)>>)
    ELSE /\ PrintT(<<"TRACE-REJECTED", reached, ToJson(Rec[reached])>>)
         /\ FALSE
=============================================================================
