CONSTANTS
  Users = {"", "u"}
  Epochs = {1, 2}
  Versions = {1, 2}
  Values = {"p", "q"}
  NodeNames = {"n1"}
  AzksEpochs = {1, 2}
  HasCache = FALSE
  CachePutBeforeDbWrite = FALSE
  BulkVersionsUsesEpoch = FALSE
  FillPolicy = "if_same_generation"
  FlushIgnoresCleanFlag = TRUE
  FlushBumpsGeneration = TRUE
  Export = FALSE
  MaxSteps = 4
  WithReads = FALSE
  SplitReads = FALSE
  WithExt = FALSE
INIT MCInit
NEXT MCNext
VIEW View
INVARIANTS TypeOK TxnReadsEqualPostCommit CacheTransparent
CHECK_DEADLOCK FALSE
