CONSTANTS
  Labels = {"a", "b", "c", "d", "f", "g", "h", "i"}
  Values = {"x", "y", "z", "w", "e"}
INIT TInit
NEXT TNext
CONSTRAINT Track
INVARIANT TraceInv
POSTCONDITION Accepted
CHECK_DEADLOCK FALSE
