CONSTANTS
  MaxE = 40
INIT Init
NEXT Next
INVARIANTS ShapeInv HistHistAgree ExportGaps
CHECK_DEADLOCK FALSE
