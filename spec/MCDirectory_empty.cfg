CONSTANTS
  Labels = {"a", "b"}
  Values = {"x", "e"}
  MaxEpoch = 3
  MaxBatch = 1
  MaxPerEpoch = 1
  Export = TRUE
INIT MCInit
NEXT MCNext
VIEW View
INVARIANTS TypeOK EpochCountsEffective LeafShape LookupSoundOnHonest
PROPERTY CommittedOnlyGrows
CHECK_DEADLOCK FALSE
