---------------------------- MODULE MCDirectory ----------------------------
(* Bounded model of AkdDirectory for TLC, plus the export of behaviours to   *)
(* replay on the real code: every explored transition prints one line        *)
(* <<"REPLAY", json>> carrying the action path that reaches its source state *)
(* (history variable `path`, hidden from fingerprinting by VIEW) and the     *)
(* action itself.  Expected outputs are not exported: TLC re-derives them    *)
(* when it validates the recorded trace (TraceDirectory).                    *)
EXTENDS AkdProofGame, Json, TLC

CONSTANTS MaxEpoch, MaxBatch, MaxPerEpoch, Export,
          WithOther      \* TRUE: publishes of labels outside the modelled set are interleaved

VARIABLE path

Pairs == Labels \X Values
Batches == UNION { [1..n -> Pairs] : n \in 0..MaxBatch }

Emit(act) == Export => PrintT(<<"REPLAY", ToJson([path |-> path, act |-> act])>>)

MCInit == Init /\ path = <<>>

MCPublish(b) ==
  LET act == [op |-> "publish", batch |-> b] IN
  /\ (PublishResult(b) = "ok" => epoch < MaxEpoch /\ Cardinality(Changes(b)) <= MaxPerEpoch)
  /\ Publish(b)
  /\ Emit(act)
  /\ path' = Append(path, act)

MCTombstone(x, cut) ==
  LET act == [op |-> "tombstone", label |-> x, cut |-> cut] IN
  /\ Tombstone(x, cut)
  /\ Emit(act)
  /\ path' = Append(path, act)

MCPublishOther ==
  LET act == [op |-> "publish_other"] IN
  /\ WithOther /\ epoch < MaxEpoch
  /\ PublishOther
  /\ Emit(act)
  /\ path' = Append(path, act)

MCNext ==
  \/ \E b \in Batches : MCPublish(b)
  \/ MCPublishOther
  \/ \E x \in Labels, cut \in 0..MaxEpoch : MCTombstone(x, cut)

MCSpec == MCInit /\ [][MCNext]_<<dvars, path>>

View == dvars

(* vacuity guards: these must be VIOLATED (checked by separate configs in the selftest) *)
NeverTombstoned == \A x \in Labels : \A i \in 1..Len(hist[x]) : ~hist[x][i].tomb
NeverThreeVersions == \A x \in Labels : Len(hist[x]) < 3
=============================================================================
