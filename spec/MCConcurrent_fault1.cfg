CONSTANTS
  Publishers = {"A"}
  Readers = {}
  RemoteReaders = {}
  LockFreeReaders = {}
  Keys <- KeysSeq
  HasCache = TRUE
  MaxFaults = 1
  InitEpochs = 1
  ReaderLag = 0
  RecheckEpochAfterBegin = TRUE
  FlagHeldThroughDbWrite = TRUE
  RootHashBeforeCommit = TRUE
  PrevEpochChecked = TRUE
  ReadersSeePendingEpoch = FALSE
  RollbackReleasesFlag = TRUE
  ExportSched = FALSE
VIEW View
INIT MCInit
NEXT MCNext
INVARIANTS AtomicFailure NoTxnLeftOpen ReturnedPairsStayPublished
CHECK_DEADLOCK FALSE
