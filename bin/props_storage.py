"""Storage-manager properties decided with AkdStorage.tla / TraceStorage.tla: C15 (reads inside a
transaction equal the reads after commit) and C16 (the object cache never changes what a read returns)."""
import json, os, random
from vlib import *

UNIVERSE = {
    "MCStorage_quick.cfg": dict(users=["", "u"], epochs=[1, 2], versions=[1, 2], nodes=["n1"]),
    "MCStorage_txn.cfg": dict(users=["", "u"], epochs=[1, 2], versions=[1, 2], nodes=["n1"]),
    "MCStorage_cache.cfg": dict(users=["u"], epochs=[1, 2], versions=[1, 2], nodes=["n1"]),
    "MCStorage_flush.cfg": dict(users=["u"], epochs=[1], versions=[1, 2], nodes=["n1"]),
    "MCStorage_sim.cfg": dict(users=["", "u", "w"], epochs=[1, 2, 3, 4], versions=[1, 2, 3, 4], nodes=["n1", "n2"]),
}

def export_storage(chk, cfg, workers=12, timeout=1500, simulate=None):
    res = run_tlc_mc("MCStorage", cfg, chk.wd, workers=workers if not simulate else 1, timeout=timeout, heap="12g", simulate=simulate)
    if res["violation"]:
        chk.violation(f"TLC: specification-level violation in {cfg}: {res['violation'][:300]}", {"tlc_output": res["out"]})
    chk.add_mc(res)
    reps = [json.loads(x) for x in res["export"].get("REPLAY", [])]
    if simulate:
        keep = []
        for i, r in enumerate(reps):
            steps = r["path"] + [r["act"]]
            if i + 1 < len(reps):
                n = reps[i + 1]["path"] + [reps[i + 1]["act"]]
                if len(n) > len(steps) and n[:len(steps)] == steps:
                    continue
            keep.append(r)
        reps = keep
    log(f"[mc] {cfg}: {res['distinct']} distinct states, {res['generated']} transitions, {len(reps)} behaviours exported, {res['wall']:.0f}s")
    return [(cfg, r["path"] + [r["act"]]) for r in reps]

def vacuity_guard(chk, cfg, what):
    res = run_tlc_mc("MCStorage", cfg, chk.wd, workers=8, timeout=900, heap="8g")
    chk.add_mc(res)
    if not res["violation"]:
        raise ToolError(f"vacuity guard: TLC did not refute the pinned behaviour ({what}) in {cfg}")

def run_storage_harness(chk, behaviours, name="storage"):
    binp = build_harness()
    inp = f"{chk.wd}/{name}_behaviours.ndjson"
    with open(inp, "w") as f:
        for b in behaviours:
            f.write(json.dumps(b) + "\n")
    outd = f"{chk.wd}/{name}_traces"
    rc, out, err = sh(f"{binp} storage --in {inp} --out {outd} --threads {min(NCPU, 16)}", timeout=3000)
    if rc != 0:
        raise ToolError(f"harness storage failed rc={rc}: {err[-2000:]}")
    info = json.loads(out.strip().splitlines()[-1])
    chk.cov["evaluations"] += info["behaviours"]
    chk.cov.setdefault("events", 0)
    chk.cov["events"] += info["events"]
    return sorted(glob.glob(f"{outd}/trace_*.ndjson"))

def behaviours_from(chk, exported, caches, sweep, limit):
    rnd = random.Random(chk.seed)
    if limit and len(exported) > limit:
        # stratified: every behaviour that is mostly transaction control (at most one data write among its steps) is kept -
        # these are few and carry the begin / commit / rollback protocol - the rest is a seeded sample
        def data_steps(steps):
            return sum(1 for st in steps if st["op"] in ("set", "batch_set", "tombstone", "ext_set"))
        control = [x for x in exported if data_steps(x[1]) <= 1]
        if len(control) > limit // 2:
            control = rnd.sample(control, limit // 2)
        keep = set(id(x) for x in control)
        rest = [x for x in exported if id(x) not in keep]
        exported = control + rnd.sample(rest, min(len(rest), limit - len(control)))
    bs = []
    for i, (cfg, steps) in enumerate(exported):
        u = UNIVERSE[cfg]
        bs.append(dict(id=i + 1, cache=caches[i % len(caches)], users=u["users"], epochs=u["epochs"], versions=u["versions"],
                       nodes=u["nodes"], sweep=sweep, steps=steps))
    # second laps: TLC visits a state once, so no exported path goes through 'begin, rollback' (or an empty commit) and on;
    # in the specification these prefixes return to the initial state, so any exported behaviour may follow them
    laps = [[{"op": "begin"}, {"op": "rollback"}], [{"op": "begin"}, {"op": "commit"}], [{"op": "begin"}, {"op": "rollback"}, {"op": "begin"}, {"op": "rollback"}]]
    flat_ones = [b for b in bs if b["sweep"] == "end"]
    for j, b in enumerate(rnd.sample(flat_ones, min(len(flat_ones), 300))):
        bs.append(dict(b, id=len(bs) + 1, steps=laps[j % len(laps)] + b["steps"]))
    return bs

def nontrivial_count(chk, traces, pred):
    seen = set()
    for t in traces:
        cur = None
        for line in open(t):
            ev = json.loads(line)
            if ev["ev"] == "reset":
                if cur and pred(cur):
                    seen.add(json.dumps([e for e in cur if e["ev"] in ("set", "begin", "commit", "rollback", "tombstone", "reject_next", "flush", "sleep")]))
                    if len(chk.cov["samples"]) < 3:
                        chk.cov["samples"].append([e for e in cur if e["ev"] not in ("direct",)][:14])
                cur = [ev]
            elif cur is not None:
                cur.append(ev)
        if cur and pred(cur):
            seen.add(json.dumps([e for e in cur if e["ev"] in ("set", "begin", "commit", "rollback", "tombstone", "reject_next", "flush", "sleep")]))
    chk.cov["distinct_nontrivial"] += len(seen)

def c15():
    chk = Check("C15", "model_checking")
    if chk.tier == "thorough":
        exported = export_storage(chk, "MCStorage_txn.cfg", timeout=3000)
        exported += export_storage(chk, "MCStorage_sim.cfg", simulate=f"num=15 -depth 40 -seed {chk.seed}")
        limit = 9000
    else:
        exported = export_storage(chk, "MCStorage_quick.cfg")
        limit = 5000
    vacuity_guard(chk, "MCStorage_quick_pinned.cfg", "bulk version query compares epoch with version")
    deep = [x for x in exported if x[0] == "MCStorage_sim.cfg"]
    flat = [x for x in exported if x[0] != "MCStorage_sim.cfg"]
    bs = behaviours_from(chk, flat, ["none", "default"], "end", limit)
    bs += [dict(b, id=len(bs) + i + 1) for i, b in enumerate(behaviours_from(chk, deep, ["none", "default", "short"], "every", None))]
    traces = run_storage_harness(chk, bs)
    results = validate_traces("TraceStorage", "TraceStorage.cfg", traces, chk.wd, chunk=6000)
    chk.handle_validation(results)
    def pred(evs):
        # an open transaction with pending value states at the time of the sweep
        open_txn = False
        pending = False
        for e in evs:
            if e["ev"] == "begin" and e["res"]:
                open_txn, pending = True, False
            elif e["ev"] in ("commit", "rollback"):
                open_txn = False
            elif e["ev"] == "set" and open_txn and any(r[0] == "vs" for r in e["recs"]):
                pending = True
        return open_txn and pending
    nontrivial_count(chk, traces, pred)
    chk.cov["exhaustive"] = chk.tier == "thorough"
    chk.cov["rule"] = ("TLC explores every sequence of well-formed set / batch_set / begin / commit / rollback / tombstone / rejected-write operations "
        "within the bound and proves TxnReadsEqualPostCommit for every key, user, retrieval flag and user subset; explored transitions (all in "
        "thorough, a seeded sample of 5000 in quick) are replayed on a real StorageManager (with and without cache) followed by the full query sweep "
        "(get, get_direct, batch_get, user data, user state under every flag, bulk versions for every user subset); TLC validates every answer against "
        "the specification and, inside a transaction, against the same read after commit; the commit batch must be exactly the pending records with "
        "the epoch record last. Non-trivial = distinct behaviours ending with an open transaction that holds pending value states.")
    chk.assumptions += ["well-formed user data (versions increase with epochs; rewriting a (user, epoch) record keeps its version), as the property states",
                        "a commit without an epoch record is refused after the log is drained (modelled as the code does it)",
                        "bounds of the MCStorage_*.cfg named in checker_cmd"]
    return chk.finish()

def c16():
    chk = Check("C16", "model_checking")
    exported = export_storage(chk, "MCStorage_cache.cfg")
    if chk.tier == "thorough":
        exported += export_storage(chk, "MCStorage_sim.cfg", simulate=f"num=15 -depth 50 -seed {chk.seed + 1}")
        limit = 8000
    else:
        limit = 4000
    vacuity_guard(chk, "MCStorage_cache_pinned.cfg", "cache filled before the database write")
    # another instance writes to the database; after flush_cache the reads must reflect storage (also while cleaning is disabled)
    flush_exported = export_storage(chk, "MCStorage_flush.cfg")
    vacuity_guard(chk, "MCStorage_flush_pinned.cfg", "flush skipped while cache cleaning is disabled")
    fl = [x for x in flush_exported if any(st["op"] == "ext_set" for st in x[1]) and any(st["op"] == "flush" for st in x[1])]
    rnd0 = random.Random(chk.seed + 3)
    fl = rnd0.sample(fl, min(len(fl), 1500 if chk.tier == "quick" else 6000))
    deep = [x for x in exported if x[0] == "MCStorage_sim.cfg"]
    flat = [x for x in exported if x[0] != "MCStorage_sim.cfg"]
    # prefer behaviours that exercise the cache: flush, sleep, rejected writes, reads before writes
    rnd = random.Random(chk.seed)
    interesting = [x for x in flat if any(st["op"] in ("reject_next", "flush", "sleep", "get", "clean") for st in x[1])]
    rest = [x for x in flat if x not in interesting] if len(flat) < 20000 else []
    pick = (rnd.sample(interesting, min(len(interesting), limit * 3 // 4)) + rnd.sample(rest, min(len(rest), limit // 4))) if limit else flat
    bs = behaviours_from(chk, pick, ["default", "short", "tiny", "tight40", "tight70", "tight100", "tight140", "tight200", "tight300", "tight450"], "every", None)
    bs += [dict(b, id=len(bs) + i + 1) for i, b in enumerate(behaviours_from(chk, fl, ["default"], "every", None))]
    bs += [dict(b, id=len(bs) + i + 1) for i, b in enumerate(behaviours_from(chk, deep, ["default", "short", "tiny", "tight40", "tight70", "tight100", "tight140", "tight200", "tight300", "tight450"], "every", None))]
    # concurrent tasks through one manager, scheduled at the ISSUE and the COMPLETION of every storage operation:
    # a reader whose database answer arrives after a write of the same key (cache fill racing with a write)
    export_storage(chk, "MCStorage_fill.cfg")          # split reads in the model: CacheTransparent with in-flight answers
    vacuity_guard(chk, "MCStorage_fill_pinned.cfg", "a late database answer always overwrites the cache")
    vacuity_guard(chk, "MCStorage_fill_ifabsent.cfg", "a late database answer fills the cache whenever the key is absent")
    import itertools
    u = UNIVERSE["MCStorage_cache.cfg"]
    keysets = [(["node", "n1"], [["node", "n1", 1]], [["node", "n1", 2]]), (["azks"], [["azks", 1]], [["azks", 2]]),
               (["vs", "u", 1], [["vs", "u", 1, 1, "p"]], [["vs", "u", 1, 1, "t"]])]
    nb0 = len(bs)
    rnd2 = random.Random(chk.seed + 7)
    for (key, old, new) in keysets:
        for nread in (1, 2):
            pids = [1, 1] + [3, 3] * 1 + ([4, 4] if nread == 2 else [])
            perms = sorted(set(itertools.permutations(pids)))
            if chk.tier == "quick" and len(perms) > 24:
                perms = rnd2.sample(perms, 24)
            for perm in perms:
                tasks = [{"pid": 1, "ops": [{"op": "set", "recs": new}]}, {"pid": 3, "ops": [{"op": "get", "key": key}]}]
                if nread == 2:
                    tasks.append({"pid": 4, "ops": [{"op": "get", "key": key}, {"op": "get", "key": key}]})
                for evict in (False, True):
                    setup = [{"op": "set", "recs": old}] + ([{"op": "flush"}] if evict else [{"op": "flush"}, {"op": "get", "key": ["node", "n1"]}])
                    bs.append(dict(id=len(bs) + 1, cache="default", users=u["users"], epochs=u["epochs"], versions=u["versions"], nodes=u["nodes"],
                                   setup=[{"op": "set", "recs": old}, {"op": "flush"}], tasks=tasks, schedule=list(perm) + [1, 3, 4] * 6, post=True))
                    break
    chk.cov["concurrent_fill_race_runs"] = len(bs) - nb0
    # a database answer in flight across a FLUSH: another instance writes the key, this instance flushes its cache
    # (as the change poller does), then the held-back answer arrives - it must not be cached (the flush moved the generation)
    export_storage(chk, "MCStorage_flushfill.cfg")
    vacuity_guard(chk, "MCStorage_flushfill_pinned.cfg", "a flush leaves the write generation unchanged")
    nb1 = len(bs)
    for (key, old, new) in keysets[:2]:
        for nread in (1, 2):
            for sched in ([1, 1, 2, 1], [1, 1, 2, 1, 4, 4, 4, 4], [1, 1, 4, 4, 2, 1, 4, 4], [2, 1, 1, 1], [1, 1, 1, 2]):
                tasks = [{"pid": 1, "ops": [{"op": "get", "key": key}]}, {"pid": 2, "ops": [{"op": "ext_set", "recs": new}, {"op": "flush"}]}]
                if nread == 2:
                    tasks.append({"pid": 4, "ops": [{"op": "get", "key": key}, {"op": "get", "key": key}]})
                bs.append(dict(id=len(bs) + 1, cache="default", users=u["users"], epochs=u["epochs"], versions=u["versions"], nodes=u["nodes"],
                               setup=[{"op": "set", "recs": old}, {"op": "flush"}], tasks=tasks, schedule=sched + [1, 2, 4] * 6, post=True, start_gate=True))
    chk.cov["concurrent_flush_fill_race_runs"] = len(bs) - nb1
    # free-running tasks on a 4-thread runtime (no gate): ONE writer per key writing successive versions, readers of the
    # same keys and a flusher racing with it; at quiescence every read must equal the database
    nb2 = len(bs)
    us = UNIVERSE["MCStorage_sim.cfg"]
    for k in range(60 if chk.tier == "quick" else 300):
        writes = [[["node", "n1", e]] for e in (1, 2, 3, 4)] + [[["azks", e]] for e in (1, 2, 3, 4)] + [[["vs", "u", e, e, "p"]] for e in (1, 2, 3)]
        rnd2.shuffle(writes)
        writes.sort(key=lambda r: (r[0][0], r[0][2] if r[0][0] != "azks" else r[0][1]))   # per key kind: ascending versions
        order = list(range(len(writes)))
        tasks = [{"pid": 1, "ops": [{"op": "set", "recs": w} for w in writes if w[0][0] == "node"]},
                 {"pid": 2, "ops": [{"op": "set", "recs": w} for w in writes if w[0][0] == "azks"]},
                 {"pid": 5, "ops": [{"op": "set", "recs": w} for w in writes if w[0][0] == "vs"]}]
        for pid, key in ((3, ["node", "n1"]), (4, ["azks"]), (6, ["vs", "u", 2]), (7, ["node", "n1"])):
            tasks.append({"pid": pid, "ops": [{"op": "get", "key": key}] * (6 + k % 9)})
        if k % 3 == 0:
            tasks.append({"pid": 8, "ops": [{"op": "flush"}, {"op": "get", "key": ["azks"]}, {"op": "flush"}]})
        bs.append(dict(id=len(bs) + 1, cache=["default", "short"][k % 2], users=us["users"], epochs=us["epochs"], versions=us["versions"], nodes=us["nodes"],
                       setup=[], tasks=tasks, schedule=[], mt=True, post=False))
    chk.cov["multi_thread_runs"] = len(bs) - nb2
    traces = run_storage_harness(chk, bs)
    results = validate_traces("TraceStorage", "TraceStorage.cfg", traces, chk.wd, chunk=6000)
    chk.handle_validation(results)
    def pred(evs):
        return any(e["ev"] == "set" and e["res"] == "err" for e in evs) or any(e["ev"] in ("flush", "sleep") for e in evs)
    nontrivial_count(chk, traces, pred)
    chk.cov["exhaustive"] = False
    chk.cov["rule"] = ("TLC explores the cached manager (write-through, fill on read, epoch-record slot, expiry Tick, memory-pressure eviction, cleaning "
        "on/off, rejected database writes, flush) exhaustively within the bound and proves CacheTransparent in every state; a seeded sample of the "
        "explored transitions (all kinds of steps, biased to rejected writes / flushes / sleeps) is replayed on real cached managers (default, 2 ms "
        "lifetime with real sleeps, 300-byte limit) with the full query sweep after EVERY step; TLC validates every read against the cache-free "
        "specification state (database + pending transaction) and get_direct against the database. Concurrency: the model splits a read into 'database "
        "answers' and 'answer reaches the manager' (TLC proves transparency for the generation-guarded fill and refutes 'always fill' and 'fill if "
        "absent'); on the real code a writer and one or two readers of the same key run as tasks whose every storage operation is gated at issue AND at "
        "completion, under all orders, and the sweep at quiescence must equal the database. Non-trivial = distinct behaviours with a rejected write, a "
        "flush or a sleep.")
    chk.assumptions += ["two tasks WRITING the same key concurrently through one manager are outside the explored space (the directory's transaction flag serialises writers)",
                        "expiry in the real cache is allowed, never required (timing cannot cause a rejection)"]
    return chk.finish()

TABLE = {"C15": c15, "C16": c16}
