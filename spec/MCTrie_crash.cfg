CONSTANTS
  D = 3
  MaxEpoch = 2
  MaxLeaves = 5
  Export = FALSE
  MaxU = 3
  MaxI = 1
  PrevEpochChecked = TRUE
  ChildPrefixChecked = TRUE
  PrefixFreeChecked = TRUE
  TopLabelChecked = TRUE
INIT Init
NEXT Next
INVARIANTS StoreIsCanonical OldViewIntact
PROPERTY CrashSubsets
CHECK_DEADLOCK FALSE
