----------------------------- MODULE MCMarkers -----------------------------
(* one state per (E, n): TLC checks them in parallel *)
EXTENDS AkdMarkers, TLC, Json
CONSTANT MaxE
VARIABLES E, n
Init == E \in 1..MaxE /\ n \in 1..MaxE /\ n <= E
Next == UNCHANGED <<E, n>>
ShapeInv == \A s \in 1..n : ShapeOK(s, n, E)
HistHistAgree == HistHistAgreeFor(E, n)
(* the gap set of the known finding, exported so that the check can compare it with the real code *)
Gaps == { m \in (n + 1)..E : LookupHistGap(E, n, m) }
ExportGaps == Gaps # {} => PrintT(<<"GAP", ToJson([E |-> E, n |-> n, ms |-> Gaps])>>)
NoGap == Gaps = {}
=============================================================================
