---------------------------- MODULE TraceMarkers ----------------------------
(* the real get_marker_versions against its transcription *)
EXTENDS AkdMarkers, Json, IOUtils, TLC
VARIABLE pos
Rec == ndJsonDeserialize(IOEnv.TRACE)
Ev == Rec[pos]
IsEv(e) == pos <= Len(Rec) /\ Ev.ev = e /\ pos' = pos + 1
TInit == pos = 1 /\ TLCSet(1, 1)
TMv == /\ IsEv("mv")
       /\ \A i \in 1..Len(Ev.rows) :
            LET r == Ev.rows[i] IN
            /\ r[3] = PastMarkers(r[1])
            /\ r[4] = FutureMarkers(r[2], Ev.E)
       /\ Len(Ev.rows) = (Ev.E * (Ev.E + 1)) \div 2
TMvBig == /\ IsEv("mv_big")
          /\ \A i \in 1..Len(Ev.rows) :
               LET r == Ev.rows[i] IN r[4] = PastMarkers(r[1]) /\ r[5] = FutureMarkers(r[2], r[3])
TNext == TMv \/ TMvBig
Track == TLCSet(1, IF pos > TLCGet(1) THEN pos ELSE TLCGet(1))
Accepted ==
  LET reached == TLCGet(1) IN
  IF reached = Len(Rec) + 1
    THEN PrintT(<<"TRACE-ACCEPTED", Len(Rec)>>)
    ELSE /\ PrintT(<<"TRACE-REJECTED", reached, ToJson(Rec[reached])>>)
         /\ FALSE
=============================================================================
