"""Trie-level checks decided with AkdTrie.tla / TraceTrie.tla: C05 (membership / non-membership
soundness and completeness, adversarial prover), and the trie-level parts of C01, C04, C14 that other
checks pull in through trie_stage()."""
import json, os, random
from vlib import *

STRETCHES = [[0, 1, 2], [0, 8, 16], [0, 7, 255], [0, 9, 200], [0, 127, 128], [0, 254, 255], [0, 15, 17], [0, 63, 64],
             [0, 31, 33], [0, 248, 249]]
STRETCHES4 = [[0, 1, 2, 3], [0, 8, 16, 24], [0, 7, 9, 255], [0, 63, 64, 65], [0, 253, 254, 255], [0, 120, 128, 136]]

def stretch_for(i, seed, d=3):
    lst = STRETCHES if d == 3 else STRETCHES4
    if i % (len(lst) + 2) < len(lst):
        pos = lst[i % (len(lst) + 2)]
    else:
        rnd = random.Random(seed * 100003 + i)
        pos = [0] + sorted(rnd.sample(range(1, 256), d - 1))
    return {"pos": pos, "filler": [0, 1, 2, 3 + seed % 97, 1000 + i][i % 5]}

def export_trees(chk, cfg, workers=8, timeout=1500):
    res = run_tlc_mc("MCTrie", cfg, chk.wd, workers=workers, timeout=timeout, heap="8g")
    if res["violation"]:
        chk.violation(f"TLC: specification-level violation in {cfg}: {res['violation'][:300]}", {"tlc_output": res["out"]})
    chk.add_mc(res)
    trees = []
    for js in res["export"].get("TREE", []):
        leaves = json.loads(js)
        trees.append(sorted([[l["label"], l["value"][1], l["ep"]] for l in leaves]))
    log(f"[mc] {cfg}: {res['distinct']} distinct states, {len(trees)} trees exported, {res['wall']:.0f}s")
    return trees

def run_trie_harness(chk, behaviours, name="trie"):
    binp = build_harness()
    inp = f"{chk.wd}/{name}_behaviours.ndjson"
    with open(inp, "w") as f:
        for b in behaviours:
            f.write(json.dumps(b) + "\n")
    outd = f"{chk.wd}/{name}_traces"
    rc, out, err = sh(f"{binp} trie --in {inp} --out {outd} --threads {min(NCPU, 16)}", timeout=3000)
    if rc != 0:
        raise ToolError(f"harness trie failed rc={rc}: {err[-2000:]}")
    info = json.loads(out.strip().splitlines()[-1])
    chk.cov.setdefault("events", 0)
    chk.cov["events"] += info["events"]
    return sorted(glob.glob(f"{outd}/trace_*.ndjson")), info

def handle_trie_validation(chk, results, label="trie: "):
    """Like Check.handle_validation but behaviours are delimited by `tree` events."""
    for r in results:
        if r["error"] and r["accepted"] is None and r["rejected"] is None:
            raise ToolError(f"TLC error validating {r['trace']}: {r['error']}  (see {r['out']})")
        lines = open(r["trace"]).read().splitlines()
        ntrees = sum(1 for l in lines if '"ev":"tree"' in l)
        if r["accepted"] is not None:
            chk.cov["traces_validated_against_impl"] += ntrees
        elif r["rejected"] is not None:
            lineno, ev = r["rejected"]
            start = lineno - 1
            while start > 0 and '"ev":"tree"' not in lines[start]:
                start -= 1
            chk.cov["traces_validated_against_impl"] += sum(1 for l in lines[:start] if '"ev":"tree"' in l)
            tree_ev = json.loads(lines[start]) if lines else {}
            chk.violation(f"{label}trace rejected by TLC at line {lineno}: {ev[:400]}",
                          {"trace_file": r["trace"], "line": lineno, "tree": tree_ev,
                           "first_unmatched_event": json.loads(ev) if ev.startswith("{") else ev})
        else:
            raise ToolError(f"TLC gave no verdict for {r['trace']} (see {r['out']})")

def trie_stage(chk, mc_cfg, do, cfgs=("wa", "exp"), pars=("disabled",), splits=False, modes=("dir",), d=3, trace_cfg="TraceTrie.cfg",
               max_trees=None, name="trie", extra=None):
    trees = export_trees(chk, mc_cfg)
    if max_trees and len(trees) > max_trees:
        rnd = random.Random(chk.seed)
        trees = rnd.sample(trees, max_trees)
    bs = []
    for i, assign in enumerate(trees):
        b = {"id": i + 1, "cfg": cfgs[i % len(cfgs)], "stretch": stretch_for(i, chk.seed, d), "assign": assign,
             "mode": modes[i % len(modes)], "par": pars[i % len(pars)], "do": do, "cached": (i % 3 == 2)}
        if extra:
            b.update(extra)
        if splits and assign:
            # insert each epoch's batch as two sub-batches, second first
            rnd = random.Random(chk.seed * 7919 + i)
            split = []
            maxep = max(a[2] for a in assign)
            for e in range(1, maxep + 1):
                idx = [k for k, a in enumerate(assign) if a[2] == e]
                rnd.shuffle(idx)
                cut = rnd.randint(0, len(idx))
                for part in (idx[:cut], idx[cut:]):
                    if part:
                        split.append(part)
            b["split"] = split
        bs.append(b)
    traces, info = run_trie_harness(chk, bs, name=name)
    chk.cov["evaluations"] += info["behaviours"]
    results = validate_traces("TraceTrie", trace_cfg, traces, chk.wd)
    handle_trie_validation(chk, results)
    return traces

def c05():
    chk = Check("C05", "model_checking")
    if chk.tier == "thorough":
        traces = trie_stage(chk, "MCTrie_export5.cfg", ["tree", "mem", "nonmem"])
        # depth-4 label universe (16 leaf slots, <= 3 leaves over 2 epochs): paths with three interior levels
        traces += trie_stage(chk, "MCTrie_export_d4.cfg", ["tree", "mem", "nonmem"], d=4, trace_cfg="TraceTrie_d4.cfg", name="trie_d4",
                             max_trees=int(os.environ.get("VERIF_D4_TREES", "2000")))
    else:
        traces = trie_stage(chk, "MCTrie_export4.cfg", ["tree", "mem", "nonmem"])
    # count candidates and the known degenerate case
    tried = 0
    nontrivial = set()
    empty_tree_unprovable = False
    for t in traces:
        cur = None
        for line in open(t):
            ev = json.loads(line)
            if ev["ev"] == "tree":
                cur = ev
            elif ev["ev"] in ("mem", "nonmem"):
                tried += ev["tried"]
                if cur is not None and len(cur["assign"]) >= 2:
                    nontrivial.add((json.dumps(cur["assign"]), cur["cfg"], json.dumps(ev.get("q", "mem"))))
                if ev["ev"] == "nonmem" and cur is not None and len(cur["assign"]) == 0 and not ev["honest"]:
                    empty_tree_unprovable = True
                if len(chk.cov["samples"]) < 3 and ev["ev"] == "nonmem" and ev["accepted"]:
                    chk.cov["samples"].append({"tree": cur["assign"], "stretch": cur["stretch"], "event": ev})
    # the degenerate case: model says no absence proof verifies on the empty tree; the real code agrees
    res = run_tlc_mc("MCTrie", "MCTrie_emptytree.cfg", chk.wd, workers=2, timeout=300)
    chk.add_mc(res)
    known = [k for k in load_known() if k.get("property") == "C05" and k.get("status") == "open"]
    if res["violation"] and empty_tree_unprovable:
        if any(k.get("match", {}).get("leaves") == 0 for k in known):
            chk.known_finding("no non-membership proof verifies against the root of the EMPTY tree (leaf set {}): the empty root's value is not the hash of two empty children")
        else:
            chk.violation("non-membership proofs do not verify on the empty tree", {"assign": [], "note": "NonMemComplete fails for leaves = {}"})
    chk.cov["candidate_proofs_tried"] = tried
    chk.cov["distinct_nontrivial"] = len(nontrivial)
    chk.cov["rule"] = ("every leaf subset of the depth-3 universe within the bound (TLC-enumerated) is built as a real tree with "
        "Azks::batch_insert_nodes over stretched 256-bit labels; for every leaf slot the honest generators' proofs and every "
        "adversarial candidate (each tree node as claimed anchor x {as is, children swapped, child replaced, hash replaced, sibling "
        "replaced, direction flipped, other node's path, other longest_prefix}) are given to akd's verify_membership / "
        "verify_nonmembership; TLC requires the set of accepted candidates to equal the specification's and none to prove a false "
        "statement. Non-trivial = distinct (tree with >= 2 leaves, configuration, query) triples.")
    chk.cov["exhaustive"] = True
    chk.assumptions += ["hash collision resistance (symbolic hash terms)", "depth-3 label universe stretched to 256 bits; bounds of the MCTrie_*.cfg named in checker_cmd",
                        "known finding: the empty tree (no absence proof verifies), see known_findings.jsonl"]
    return chk.finish()

def c09():
    import props_dir
    chk = Check("C09", "model_checking")
    max_i = 1 if chk.tier == "quick" else 2
    traces = trie_stage(chk, "MCTrie_audit3.cfg", ["tree", "auditor"], extra={"max_u": 3, "max_i": max_i})
    tried = 0
    accepted = 0
    nontrivial = set()
    for t in traces:
        cur = None
        for line in open(t):
            ev = json.loads(line)
            if ev["ev"] == "tree":
                cur = ev
            elif ev["ev"] == "auditor":
                tried += ev["tried"]
                for c in ev["cands"]:
                    if c["start_ok"] and c["i"]:
                        nontrivial.add((json.dumps(cur["assign"]), json.dumps(c["u"]), json.dumps(c["i"])))
                    if c["verdict"]:
                        accepted += 1
                if len(chk.cov["samples"]) < 2 and len(cur["assign"]) == 3:
                    chk.cov["samples"].append({"tree": cur["assign"], "candidates": [c for c in ev["cands"] if c["start_ok"]][:6]})
    # the pinned (unrepaired) auditor must be refuted by TLC: guards against a vacuous adversary
    res = run_tlc_mc("MCTrie", "MCTrie_audit3_pinned.cfg", chk.wd, workers=4, timeout=600)
    chk.add_mc(res)
    if not res["violation"]:
        raise ToolError("vacuity guard: TLC did not refute the auditor without prefix-free validation")
    # list / digest tampering at directory level
    exported = props_dir.export_behaviours(chk, ["MCDirectory_quick.cfg"])
    rnd = random.Random(chk.seed)
    exported = [x for x in exported if any(st["op"] == "publish" for st in x[2])]
    sample = rnd.sample(exported, min(len(exported), 300 if chk.tier == "quick" else 3000))
    bs = props_dir.make_behaviours(chk, sample, ["audit", "audit_tamper"])
    dtraces = props_dir.run_dir_harness(chk, bs, name="tamper")
    results = validate_traces("TraceDirectory", "TraceDirectory.cfg", dtraces, chk.wd)
    chk.handle_validation(results, label="audit tampering: ")
    ntamper = sum(1 for t in dtraces for line in open(t) if '"ev":"audit_tamper"' in line)
    chk.cov["candidate_proofs_tried"] = tried
    chk.cov["accepted_candidates"] = accepted
    chk.cov["tampered_audit_proofs"] = ntamper
    chk.cov["distinct_nontrivial"] = len(nontrivial)
    chk.cov["exhaustive"] = True
    chk.cov["rule"] = ("for every depth-3 tree with <= 3 leaves (TLC-enumerated) built as a real tree: every set of <= 3 real nodes as "
        "'unchanged' and, when that set reproduces the start hash, every set of <= %d elements over all labels of length 1..3 x 2 values as "
        "'inserted' (shadowing, extending, duplicating and overlapping labels included) is given to the real verify_consecutive_append_only with "
        "the end hash the auditor itself computes; TLC validates verdict = specification's, the surviving nodes of the rebuilt tree = specification's, "
        "and accepted => every leaf committed by the start hash is committed by the end hash. Plus: every honest audit proof of sampled histories "
        "with dropped/added hashes, proofs, epochs, shifted epochs and replaced or bit-flipped digests must be rejected by audit_verify. "
        "Non-trivial = distinct (tree, unchanged cut, non-empty inserted set) candidates." % max_i)
    chk.assumptions += ["hash collision resistance (symbolic hash terms)", "bounds: depth 3, <= 3 leaves, |unchanged| <= 3, |inserted| <= %d" % max_i]
    return chk.finish()

TABLE = {"C05": c05, "C09": c09}

# ------------------------------------------------------------------ C17

LSTRETCHES = [[0, 1, 2, 3, 4, 5, 6], [0, 7, 8, 9, 15, 16, 17], [1, 8, 16, 24, 32, 40, 256], [3, 63, 64, 65, 127, 128, 129],
              [7, 247, 248, 249, 254, 255, 256], [0, 100, 200, 253, 254, 255, 256], [8, 16, 24, 32, 40, 48, 56],
              [5, 6, 7, 8, 9, 10, 11], [250, 251, 252, 253, 254, 255, 256], [15, 23, 31, 39, 47, 55, 63]]

def all_labels(k):
    out = []
    for n in range(k + 1):
        for i in range(1 << n):
            out.append([(i >> (n - 1 - b)) & 1 for b in range(n)])
    return out

def c17():
    chk = Check("C17", "model_checking")
    res = run_tlc_mc("MCLabels", "MCLabels.cfg", chk.wd, workers=8, timeout=900)
    if res["violation"]:
        chk.violation(f"TLC: label law violated: {res['violation'][:300]}", {"tlc_output": res["out"]})
    chk.add_mc(res)
    chk.cov["states"] = max(chk.cov["states"], 1)
    rnd = random.Random(chk.seed)
    nst = 10 if chk.tier == "quick" else 40
    stretches = list(LSTRETCHES)
    while len(stretches) < nst:
        stretches.append(sorted(rnd.sample(range(0, 257), 7)))
    # set operations: all sets of <= 3 (quick) / 4 (thorough) labels of <= 3 bits, every prefix label
    labs3 = all_labels(3)
    import itertools
    sets = []
    for n in range(1, (3 if chk.tier == "quick" else 4) + 1):
        for comb in itertools.combinations(labs3, n):
            sets.append(list(comb))
    bs = []
    for i, pos in enumerate(stretches[:nst]):
        bs.append({"id": len(bs) + 1, "cfg": ["wa", "exp"][i % 2], "pos": pos, "filler": [0, 1, 2, 5 + chk.seed, 77][i % 5], "pairs": True})
    # set behaviours use 4-position stretches (3-bit labels)
    chunk = 400
    setjobs = [dict(set=s, p=p) for s in sets for p in labs3]
    for j in range(0, len(setjobs), chunk):
        i = j // chunk
        pos4 = [[0, 1, 2, 3], [0, 8, 16, 256], [7, 8, 9, 255], [100, 127, 128, 129], [1, 63, 64, 256]][i % 5]
        bs.append({"id": len(bs) + 1, "cfg": ["wa", "exp"][i % 2], "pos": pos4, "filler": [0, 1, 2, 9][i % 4], "pairs": False, "sets": setjobs[j:j + chunk]})
    binp = build_harness()
    inp = f"{chk.wd}/label_behaviours.ndjson"
    with open(inp, "w") as f:
        for b in bs:
            f.write(json.dumps(b) + "\n")
    outd = f"{chk.wd}/label_traces"
    rc, out, err = sh(f"{binp} labels --in {inp} --out {outd} --threads {min(NCPU, 16)}", timeout=1800)
    if rc != 0:
        raise ToolError(f"harness labels failed: {err[-2000:]}")
    info = json.loads(out.strip().splitlines()[-1])
    traces = sorted(glob.glob(f"{outd}/trace_*.ndjson"))
    results = validate_traces("TraceLabels", "TraceLabels.cfg", traces, chk.wd)
    npairs = 0
    nsets = 0
    for r in results:
        if r["error"] and r["accepted"] is None and r["rejected"] is None:
            raise ToolError(f"TLC error validating {r['trace']}: {r['error']} (see {r['out']})")
        if r["rejected"] is not None:
            lineno, ev = r["rejected"]
            chk.violation(f"label operation disagrees with its bit-string meaning: {ev[:300]}", {"trace_file": r["trace"], "line": lineno, "event": json.loads(ev) if ev.startswith("{") else ev})
        elif r["accepted"] is not None:
            chk.cov["traces_validated_against_impl"] += 1
        for line in open(r["trace"]):
            ev = json.loads(line)
            if ev["ev"] == "pairs":
                npairs += len(ev["row"])
                if len(chk.cov["samples"]) < 2 and len(ev["a"]) == 3:
                    chk.cov["samples"].append({"a": ev["a"], "row": ev["row"][:6]})
            elif ev["ev"] == "setops":
                nsets += 1
                if len(chk.cov["samples"]) < 4 and len(ev["set"]) == 3:
                    chk.cov["samples"].append(ev)
    chk.cov["evaluations"] = npairs + nsets
    chk.cov["distinct_nontrivial"] = npairs + nsets
    chk.cov["label_pairs_recorded"] = npairs
    chk.cov["set_operations_recorded"] = nsets
    chk.cov["exhaustive"] = True
    chk.cov["rule"] = ("TLC proves the algebraic laws of AkdLabels for all labels <= 6 bits (pairs), <= 4 bits (triples) and all sets of <= 4 labels of <= 3 bits; "
        "the real NodeLabel::{is_prefix_of, get_longest_common_prefix, get_prefix, get_prefix_ordering, cmp} results for ALL pairs of model labels "
        "<= 6 bits under each stretch map (real lengths 0..256 around byte boundaries, adversarial fillers, garbage beyond label_len where specified "
        "to be ignored) and the AzksElementSet partition / common prefix / contains_prefix results (natural and forced-unsorted representation, via "
        "the cfg-guarded hook) for all sets of <= 3(4) labels of <= 3 bits x every prefix label are validated by TLC against AkdLabels. Every recorded "
        "pair / set operation is a distinct case (different operands or stretch).")
    chk.assumptions += ["stretch maps preserve prefix / LCP / direction / order exactly (argued in DESIGN.md section 4.3)",
                        "pairs beyond 6 model bits are not enumerated (the property's '10 bits' domain is covered up to 6 bits x 10-40 stretch maps)"]
    return chk.finish()

TABLE["C17"] = c17
