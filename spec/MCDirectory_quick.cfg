CONSTANTS
  Labels = {"a", "b"}
  Values = {"x", "y"}
  MaxEpoch = 3
  MaxBatch = 2
  MaxPerEpoch = 2
  Export = TRUE
  WithOther = FALSE
INIT MCInit
NEXT MCNext
VIEW View
INVARIANTS TypeOK EpochCountsEffective LeafShape EveryEpochInserts LookupSoundOnHonest
PROPERTY CommittedOnlyGrows
CHECK_DEADLOCK FALSE
