#!/bin/bash
# bin/runall.sh [tier]: every registered check in turn on /repo's working tree; summary at the end (used before committing evidence)
TIER=${1:-quick}
cd /verif || exit 2
mkdir -p work/runall
fail=0
for p in C01 C02 C03 C04 C05 C06 C07 C08 C09 C10 C11 C12 C13 C14 C15 C16 C17 C18 C19 C20; do
  VERIF_TIER=$TIER bin/check $p > work/runall/$p.$TIER.log 2>&1
  rc=$?
  v=$(grep -c '^VIOLATION' work/runall/$p.$TIER.log)
  k=$(grep -c '^KNOWN-FINDING' work/runall/$p.$TIER.log)
  echo "$p rc=$rc violations=$v known=$k $(grep 'done in' work/runall/$p.$TIER.log | tail -1 | cut -c1-160)"
  [ $rc -ne 0 ] && fail=1
done
exit $fail
