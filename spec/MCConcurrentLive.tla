---- MODULE MCConcurrentLive ----
(* Liveness of the commit protocol (AkdConcurrent!FairSpec): no history variable, so that the     *)
(* behaviour graph stays the one of the protocol itself.                                          *)
EXTENDS AkdConcurrent
KeysSeq == <<"root", "n1">>
====
