#!/bin/bash
# bin/devcopy.sh <dir>: scratch copy of /verif (without work/, build output) and of /repo's HEAD under <dir>, for developing
# or trying long runs while /repo itself is busy (e.g. a self-test is applying stored patches to it). Registered commands
# never use it. Usage afterwards:  cd <dir>/verif && VERIF_ROOT=<dir>/verif bin/check C05
D=${1:?dir}; mkdir -p $D
git -C /repo worktree add --detach $D/repo HEAD -q || exit 2
rsync -a --exclude work --exclude 'harness/target*' --exclude replay --exclude .git /verif/ $D/verif/
sed -i "s|/repo/akd|$D/repo/akd|g" $D/verif/harness/Cargo.toml
echo "copy in $D (remove with: git -C /repo worktree remove --force $D/repo; rm -rf $D)"
