---------------------------- MODULE AkdConcurrent ----------------------------
(***************************************************************************)
(* Publishers and readers as processes whose steps are "local computation   *)
(* + ONE storage operation" - the granularity at which C10, C12 and C13     *)
(* quantify and at which the harness's gate schedules the real code.        *)
(*                                                                          *)
(* Shared state (akd/src/storage/manager, transaction, cache; directory.rs):*)
(*   db        the database: epoch record, node records with two versions,  *)
(*             value-state versions                                         *)
(*   txnActive, txnLog   the single in-memory transaction shared by clones  *)
(*   cache     optional object cache (epoch-record slot + node records)     *)
(* Node contents are abstract: the content of a node is the set of          *)
(* publishers whose leaves it includes; the root content of epoch e is what *)
(* "root hash of epoch e" stands for.  A publisher that read content c of a *)
(* node writes c \cup {self}.  A lost update is then visible as a root      *)
(* content that lacks a publisher who was told "ok".                        *)
(*                                                                          *)
(* Switches name the deviations of the pinned code from what the properties *)
(* demand; with all switches at their repaired value TLC proves the         *)
(* invariants, with a switch at its pinned value it produces the schedule.  *)
(***************************************************************************)
EXTENDS Naturals, Sequences, FiniteSets, TLC

CONSTANTS Publishers,          \* publisher process ids
          Readers,             \* reader process ids (each performs one lookup-like request)
          RemoteReaders,       \* readers served by ANOTHER instance: own manager (own cache, no access to the transaction log)
          LockFreeReaders,     \* remote readers that do not take the instance's cache lock (get_epoch_hash): the poller does not wait for them
          Keys,                \* node keys every publisher reads and rewrites, in this order (a sequence); Keys[1] is the root
          HasCache,
          MaxFaults,           \* number of storage operations that may fail
          InitEpochs,          \* the directory starts with this many committed epochs (for lagging readers)
          ReaderLag,           \* the remote instance's cached epoch record may be this many epochs behind storage
          RecheckEpochAfterBegin,   \* repaired: publish re-reads the epoch record after taking the flag
          FlagHeldThroughDbWrite,   \* repaired: the transaction flag is released only after the commit's database write
          RootHashBeforeCommit,     \* repaired: the returned root hash is computed before the commit
          PrevEpochChecked,         \* repaired: a record whose previous version is newer than the target is an error
          ReadersSeePendingEpoch,   \* pinned: a request reads the epoch record pending in the shared transaction log
          RollbackReleasesFlag      \* as the code: rollback_transaction clears the log AND releases the flag

(* contents are sets of tagged pairs: <<"i", j>> for the initial epochs, <<"p", publisher>> *)
InitContent(e) == { <<"i", j>> : j \in 1..e }
Mark(p) == <<"p", p>>
NoRec == [ep |-> 0, c |-> {}, none |-> TRUE]
Ver(e, c) == [ep |-> e, c |-> c, none |-> FALSE]

VARIABLES db,          \* [azks: Nat, nodes: [KeySet -> [latest, prev]]]
          txnActive, txnLog,   \* txnLog: [azks: Nat (0 = none), nodes: partial function key -> [latest, prev]]
          cache,       \* the writer instance's object cache
          rcache,      \* the remote (read-only) instance's object cache
          pc, loc,     \* per-process control state and locals
          faults,      \* storage operations failed so far
          published,   \* ghost: epoch -> set of root contents the database ever showed for that epoch
          ret          \* per-process result: [st |-> "none"|"ok"|"err", ep, root]

cvars == <<db, txnActive, txnLog, cache, rcache, pc, loc, faults, published, ret>>

KeySet == { Keys[i] : i \in 1..Len(Keys) }
RootKey == Keys[1]
Procs == Publishers \cup Readers

EmptyLog == [azks |-> 0, nodes |-> <<>>]     \* <<>> = function with empty domain
EmptyCache == [hasAzks |-> FALSE, azks |-> 0, nodes |-> <<>>]

(* TreeNodeWithPreviousValue::determine_node_to_get *)
Pick(rec, t) ==
  IF rec.latest.ep > t
    THEN IF rec.prev.none THEN [st |-> "notfound"]
         ELSE IF PrevEpochChecked /\ rec.prev.ep > t THEN [st |-> "err"]
         ELSE [st |-> "ok", v |-> rec.prev]
    ELSE [st |-> "ok", v |-> rec.latest]

(* the record a manager get returns: transaction log, then cache, then database *)
Src(k) == IF txnActive /\ k \in DOMAIN txnLog.nodes THEN "txn"
          ELSE IF HasCache /\ k \in DOMAIN cache.nodes THEN "cache"
          ELSE "db"
GetNodeRec(k) == IF Src(k) = "txn" THEN txnLog.nodes[k]
                 ELSE IF Src(k) = "cache" THEN cache.nodes[k]
                 ELSE db.nodes[k]
AzksSrc == IF ReadersSeePendingEpoch /\ txnActive /\ txnLog.azks # 0 THEN "txn"
           ELSE IF HasCache /\ cache.hasAzks THEN "cache"
           ELSE "db"
GetAzks == IF AzksSrc = "txn" THEN txnLog.azks ELSE IF AzksSrc = "cache" THEN cache.azks ELSE db.azks

CacheFillNode(k) == IF HasCache /\ Src(k) = "db" THEN [cache EXCEPT !.nodes = (k :> db.nodes[k]) @@ cache.nodes] ELSE cache
CacheFillAzks == IF HasCache /\ AzksSrc = "db" THEN [cache EXCEPT !.hasAzks = TRUE, !.azks = db.azks] ELSE cache

(* a storage operation may fail while the fault budget lasts (only operations that reach the database) *)
MayFail(reachesDb) == reachesDb /\ faults < MaxFaults

InitDb ==
  [azks |-> InitEpochs,
   nodes |-> [k \in KeySet |-> [latest |-> Ver(InitEpochs, InitContent(InitEpochs)),
                                prev |-> IF InitEpochs > 0 THEN Ver(InitEpochs - 1, InitContent(InitEpochs - 1)) ELSE NoRec]]]

Init ==
  /\ db = InitDb
  /\ txnActive = FALSE /\ txnLog = EmptyLog
  /\ cache = EmptyCache
  /\ rcache \in (IF ReaderLag > 0
                   THEN { [hasAzks |-> TRUE, azks |-> InitEpochs - g, nodes |-> <<>>] : g \in 0..ReaderLag }
                   ELSE { EmptyCache })
  /\ pc = [p \in Procs |-> IF p \in Publishers THEN "p_read_epoch" ELSE "r_read_epoch"]
  /\ loc = [p \in Procs |-> [epoch |-> 0, i |-> 1, root |-> {}, recs |-> <<>>, azks |-> 0]]
  /\ faults = 0
  /\ published = [e \in 0..(InitEpochs + Cardinality(Publishers)) |-> IF e <= InitEpochs THEN { InitContent(e) } ELSE {}]
  /\ ret = [p \in Procs |-> [st |-> "none", ep |-> 0, root |-> {}]]

Fail(p) == /\ faults' = faults + 1
           /\ ret' = [ret EXCEPT ![p] = [st |-> "err", ep |-> 0, root |-> {}]]
           /\ pc' = [pc EXCEPT ![p] = "done"]

Return(p, st, e, r) == /\ ret' = [ret EXCEPT ![p] = [st |-> st, ep |-> e, root |-> r]]
                       /\ pc' = [pc EXCEPT ![p] = "done"]

---------------------------------------------------------------------------
(* Effects of the commit protocol on the shared state.  The publisher actions below are "control   *)
(* state + effect"; TraceConcurrent binds the SAME effects to the events recorded from the real     *)
(* code at the transaction's linearization points and at the database writes.                       *)

(* Transaction::rollback_transaction *)
Rollback == txnActive' = (IF RollbackReleasesFlag THEN FALSE ELSE txnActive) /\ txnLog' = EmptyLog

(* TreeNode::write_to_storage: the record put into the log for node k at epoch e, whose new content *)
(* is F(content as of e).  The version as of e - 1 is shifted into `prev`.                          *)
NodeWriteRec(k, e, F(_)) ==
  LET rec == GetNodeRec(k)
      cur == Pick(rec, e)
      old == Pick(rec, e - 1)
      content == IF cur.st = "ok" THEN cur.v.c ELSE {}
  IN [latest |-> Ver(e, F(content)), prev |-> IF old.st = "ok" THEN old.v ELSE NoRec]

LogNode(k, newrec) == txnLog' = [txnLog EXCEPT !.nodes = (k :> newrec) @@ txnLog.nodes]
LogAzks(e) == txnLog' = [txnLog EXCEPT !.azks = e]

(* Transaction::drain_transaction: the log moves into the committing call, the flag stays as it is *)
Drain(p) == /\ loc' = [loc EXCEPT ![p].recs = txnLog.nodes, ![p].azks = txnLog.azks]
            /\ txnLog' = EmptyLog

RootAsOf(d, e) == LET r == Pick(d.nodes[RootKey], e) IN IF r.st = "ok" THEN r.v.c ELSE {}

(* StorageManager::write_committed_records: database write of the drained records, then the cache *)
CommitToDb(recs, azks) ==
  LET newdb == [azks |-> azks, nodes |-> recs @@ db.nodes]        \* the records written replace those with the same key
  IN /\ db' = newdb
     /\ published' = [published EXCEPT ![newdb.azks] = @ \cup { RootAsOf(newdb, newdb.azks) }]
     /\ cache' = IF HasCache
                   THEN [hasAzks |-> TRUE, azks |-> newdb.azks,
                         nodes |-> [k \in (DOMAIN cache.nodes) \cup (DOMAIN recs) |->
                                      IF k \in DOMAIN recs THEN recs[k] ELSE cache.nodes[k]]]
                   ELSE cache

---------------------------------------------------------------------------
(* publisher: Directory::publish (directory.rs:104-265) *)

(* retrieve_azks *)
PReadEpoch(p) ==
  /\ pc[p] = "p_read_epoch"
  /\ \/ /\ MayFail(AzksSrc = "db") /\ Fail(p)
        /\ UNCHANGED <<db, txnActive, txnLog, cache, loc, published, rcache>>
     \/ /\ loc' = [loc EXCEPT ![p].epoch = GetAzks]
        /\ cache' = CacheFillAzks
        /\ pc' = [pc EXCEPT ![p] = "p_read_versions"]
        /\ UNCHANGED <<db, txnActive, txnLog, faults, published, ret, rcache>>

(* get_user_state_versions: always reaches the database; its content is abstracted into the node contents *)
PReadVersions(p) ==
  /\ pc[p] = "p_read_versions"
  /\ \/ /\ MayFail(TRUE) /\ Fail(p)
        /\ UNCHANGED <<db, txnActive, txnLog, cache, loc, published, rcache>>
     \/ /\ pc' = [pc EXCEPT ![p] = "p_begin"]
        /\ UNCHANGED <<db, txnActive, txnLog, cache, loc, faults, published, ret, rcache>>

(* begin_transaction (an atomic swap, no storage operation), then - repaired - re-read of the epoch record *)
PBegin(p) ==
  /\ pc[p] = "p_begin"
  /\ IF txnActive
       THEN /\ Return(p, "err", 0, {})
            /\ UNCHANGED <<db, txnActive, txnLog, cache, loc, faults, published, rcache>>
       ELSE /\ txnActive' = TRUE
            /\ pc' = [pc EXCEPT ![p] = IF RecheckEpochAfterBegin THEN "p_recheck" ELSE "p_node"]
            /\ UNCHANGED <<db, txnLog, cache, loc, faults, published, ret, rcache>>

PRecheck(p) ==
  /\ pc[p] = "p_recheck"
  /\ \/ /\ MayFail(AzksSrc = "db") /\ Fail(p)
        /\ Rollback
        /\ UNCHANGED <<db, cache, loc, published, rcache>>
     \/ /\ cache' = CacheFillAzks
        /\ IF GetAzks = loc[p].epoch
             THEN /\ pc' = [pc EXCEPT ![p] = "p_node"]
                  /\ UNCHANGED <<txnActive, txnLog, ret, rcache>>
             ELSE /\ Rollback
                  /\ Return(p, "err", 0, {})
        /\ UNCHANGED <<db, loc, faults, published, rcache>>

(* batch_insert_nodes: one node at a time: read it as of the new epoch, rewrite it into the log.   *)
(* The write shifts the version as of the old epoch into `prev` (TreeNode::write_to_storage).      *)
PNode(p) ==
  /\ pc[p] = "p_node"
  /\ LET k == Keys[loc[p].i]
         e == loc[p].epoch + 1
         cur == Pick(GetNodeRec(k), e)
     IN \/ /\ MayFail(Src(k) = "db") /\ Fail(p)
           /\ Rollback                                          \* rollback_transaction
           /\ UNCHANGED <<db, cache, loc, published, rcache>>
        \/ /\ cur.st = "err"
           /\ Rollback
           /\ Return(p, "err", 0, {})
           /\ UNCHANGED <<db, cache, loc, faults, published, rcache>>
        \/ /\ cur.st # "err"
           /\ LET newrec == NodeWriteRec(k, e, LAMBDA c : c \cup {Mark(p)})
              IN /\ LogNode(k, newrec)
                 /\ loc' = [loc EXCEPT ![p].i = loc[p].i + 1,
                                        ![p].root = IF k = RootKey THEN newrec.latest.c ELSE loc[p].root]
           /\ cache' = CacheFillNode(k)
           /\ pc' = [pc EXCEPT ![p] = IF loc[p].i = Len(Keys) THEN "p_set_azks" ELSE "p_node"]
           /\ UNCHANGED <<db, txnActive, faults, published, ret, rcache>>

(* batch_set([Azks, value states]) into the log; (repaired) root hash from the log; drain the log *)
PSetAzks(p) ==
  /\ pc[p] = "p_set_azks"
  /\ LogAzks(loc[p].epoch + 1)
  /\ pc' = [pc EXCEPT ![p] = "p_drain"]
  /\ UNCHANGED <<db, txnActive, cache, rcache, loc, faults, published, ret>>

PDrain(p) ==
  /\ pc[p] = "p_drain"
  /\ Drain(p)
  /\ txnActive' = IF FlagHeldThroughDbWrite THEN txnActive ELSE FALSE
  /\ pc' = [pc EXCEPT ![p] = "p_db_write"]
  /\ UNCHANGED <<db, cache, faults, published, ret, rcache>>

(* the commit's database write (all records; epoch record last is refined in AkdTrie / C11) *)
PDbWrite(p) ==
  /\ pc[p] = "p_db_write"
  /\ \/ /\ MayFail(TRUE) /\ Fail(p)
        /\ txnActive' = IF FlagHeldThroughDbWrite THEN FALSE ELSE txnActive
        /\ UNCHANGED <<db, txnLog, cache, loc, published, rcache>>
     \/ /\ CommitToDb(loc[p].recs, loc[p].azks)
        /\ txnActive' = IF FlagHeldThroughDbWrite THEN FALSE ELSE txnActive
        /\ pc' = [pc EXCEPT ![p] = IF RootHashBeforeCommit THEN "p_ret" ELSE "p_root_after"]
        /\ UNCHANGED <<txnLog, loc, faults, ret, rcache>>

(* pinned: the root hash is read back from storage after the commit *)
PRootAfter(p) ==
  /\ pc[p] = "p_root_after"
  /\ \/ /\ MayFail(Src(RootKey) = "db") /\ Fail(p)
        /\ UNCHANGED <<db, txnActive, txnLog, cache, loc, published, rcache>>
     \/ /\ LET r == Pick(GetNodeRec(RootKey), loc[p].azks) IN
           loc' = [loc EXCEPT ![p].root = IF r.st = "ok" THEN r.v.c ELSE {}]
        /\ pc' = [pc EXCEPT ![p] = "p_ret"]
        /\ UNCHANGED <<db, txnActive, txnLog, cache, faults, published, ret, rcache>>

PRet(p) ==
  /\ pc[p] = "p_ret"
  /\ Return(p, "ok", loc[p].azks, loc[p].root)
  /\ UNCHANGED <<db, txnActive, txnLog, cache, loc, faults, published, rcache>>

---------------------------------------------------------------------------
(* reader: lookup / history / audit / epoch hash all have this shape: read the epoch record once, *)
(* then fetch nodes "as of" that epoch (here: every key), finally report (epoch, root content).    *)
(* A local reader shares the writer's manager (transaction log + cache); a remote reader runs on   *)
(* another instance: its own cache, which may lag, and the database.                               *)

IsRemote(r) == r \in RemoteReaders
RC(r) == IF IsRemote(r) THEN rcache ELSE cache
RAzksSrc(r) == IF ReadersSeePendingEpoch /\ ~IsRemote(r) /\ txnActive /\ txnLog.azks # 0 THEN "txn"
               ELSE IF (IsRemote(r) \/ HasCache) /\ RC(r).hasAzks THEN "cache"
               ELSE "db"
RGetAzks(r) == IF RAzksSrc(r) = "txn" THEN txnLog.azks ELSE IF RAzksSrc(r) = "cache" THEN RC(r).azks ELSE db.azks
RSrc(r, k) == IF ~IsRemote(r) /\ txnActive /\ k \in DOMAIN txnLog.nodes THEN "txn"
              ELSE IF (IsRemote(r) \/ HasCache) /\ k \in DOMAIN RC(r).nodes THEN "cache"
              ELSE "db"
RGetNodeRec(r, k) == IF RSrc(r, k) = "txn" THEN txnLog.nodes[k]
                     ELSE IF RSrc(r, k) = "cache" THEN RC(r).nodes[k]
                     ELSE db.nodes[k]
RFill(r, newc) == IF IsRemote(r) THEN rcache' = newc /\ UNCHANGED cache
                  ELSE IF HasCache THEN cache' = newc /\ UNCHANGED rcache
                  ELSE UNCHANGED <<cache, rcache>>

RReadEpoch(r) ==
  /\ pc[r] = "r_read_epoch"
  /\ \/ /\ MayFail(RAzksSrc(r) = "db") /\ Fail(r)
        /\ UNCHANGED <<db, txnActive, txnLog, cache, rcache, loc, published>>
     \/ /\ loc' = [loc EXCEPT ![r].epoch = RGetAzks(r)]
        /\ RFill(r, IF RAzksSrc(r) = "db" THEN [RC(r) EXCEPT !.hasAzks = TRUE, !.azks = db.azks] ELSE RC(r))
        /\ pc' = [pc EXCEPT ![r] = "r_node"]
        /\ UNCHANGED <<db, txnActive, txnLog, faults, published, ret>>

RNode(r) ==
  /\ pc[r] = "r_node"
  /\ LET k == Keys[loc[r].i]
         got == Pick(RGetNodeRec(r, k), loc[r].epoch)
     IN \/ /\ MayFail(RSrc(r, k) = "db") /\ Fail(r)
           /\ UNCHANGED <<db, txnActive, txnLog, cache, rcache, loc, published>>
        \/ /\ got.st # "ok"
           /\ Return(r, "err", 0, {})
           /\ UNCHANGED <<db, txnActive, txnLog, cache, rcache, loc, faults, published>>
        \/ /\ got.st = "ok"
           /\ loc' = [loc EXCEPT ![r].i = loc[r].i + 1,
                                  ![r].root = IF k = RootKey THEN got.v.c ELSE loc[r].root,
                                  ![r].recs = (k :> got.v) @@ loc[r].recs]
           /\ RFill(r, IF RSrc(r, k) = "db" THEN [RC(r) EXCEPT !.nodes = (k :> db.nodes[k]) @@ RC(r).nodes] ELSE RC(r))
           /\ IF loc[r].i = Len(Keys)
                THEN Return(r, "ok", loc[r].epoch, IF k = RootKey THEN got.v.c ELSE loc[r].root)
                ELSE pc' = [pc EXCEPT ![r] = "r_node"] /\ UNCHANGED ret
           /\ UNCHANGED <<db, txnActive, txnLog, faults, published>>

(* the remote instance's change poller: storage is ahead => flush the cache and reload the epoch record *)
RPoll ==
  /\ RemoteReaders # {}
  /\ rcache.hasAzks /\ db.azks > rcache.azks
  /\ \A r \in RemoteReaders \ LockFreeReaders : pc[r] \in {"r_read_epoch", "done"}     \* the write lock waits for readers in flight (those that take the read lock)
  /\ rcache' = [hasAzks |-> TRUE, azks |-> db.azks, nodes |-> <<>>]
  /\ UNCHANGED <<db, txnActive, txnLog, cache, pc, loc, faults, published, ret>>

Next ==
  \/ \E p \in Publishers : PReadEpoch(p) \/ PReadVersions(p) \/ PBegin(p) \/ PRecheck(p) \/ PNode(p)
                           \/ PSetAzks(p) \/ PDrain(p) \/ PDbWrite(p) \/ PRootAfter(p) \/ PRet(p)
  \/ \E r \in Readers : RReadEpoch(r) \/ RNode(r)
  \/ RPoll

Spec == Init /\ [][Next]_cvars

---------------------------------------------------------------------------
(* properties *)

Ok(p) == ret[p].st = "ok"
Quiescent == \A p \in Procs : pc[p] = "done"
OkPubs == { p \in Publishers : Ok(p) }

(* C12: calls that changed the directory got distinct epochs *)
EpochsDistinct == \A p, q \in Publishers : (p # q /\ Ok(p) /\ Ok(q)) => ret[p].ep # ret[q].ep

(* C12: every returned (epoch, root) pair is and stays THE pair published for that epoch *)
ReturnedPairsStayPublished == \A p \in Publishers : Ok(p) => published[ret[p].ep] = { ret[p].root }

(* C12: at quiescence the directory is the serial application of the successful calls, and nothing else *)
FinalEqualsSerial ==
  Quiescent =>
    /\ db.azks = InitEpochs + Cardinality(OkPubs)
    /\ \A k \in KeySet : LET r == Pick(db.nodes[k], db.azks) IN
                           r.st = "ok" /\ r.v.c = InitContent(InitEpochs) \cup { Mark(p) : p \in OkPubs }
    /\ { ret[p].ep : p \in OkPubs } = (InitEpochs + 1)..(InitEpochs + Cardinality(OkPubs))
    /\ ~txnActive

(* C10: a publish that returns an error has no effect (single publisher, one fault) *)
AtomicFailure ==
  (Cardinality(Publishers) = 1 /\ Quiescent) =>
     \A p \in Publishers :
        ret[p].st = "err" =>
          /\ db = InitDb
          /\ ~txnActive /\ txnLog = EmptyLog
          /\ GetAzks = db.azks                                   \* the same instance (through its cache) reports the old epoch
          /\ \A k \in KeySet : Pick(GetNodeRec(k), db.azks) = Pick(db.nodes[k], db.azks)

(* C13: every answer is an error or names a published (epoch, root) pair and was assembled from  *)
(* node versions as of exactly that epoch                                                         *)
AnswersArePublished ==
  \A r \in Readers :
     Ok(r) => /\ published[ret[r].ep] = { ret[r].root }
              /\ \A k \in DOMAIN loc[r].recs : loc[r].recs[k].c = ret[r].root    \* no stitching of two epochs

NoTxnLeftOpen == Quiescent => ~txnActive

(* liveness (under weak fairness of every process): every call returns, and the transaction flag is *)
(* always eventually released - no interleaving or fault leaves a publisher holding it for ever      *)
FairSpec == Spec /\ \A p \in Procs : WF_cvars(\/ PReadEpoch(p) \/ PReadVersions(p) \/ PBegin(p) \/ PRecheck(p) \/ PNode(p)
                                                 \/ PSetAzks(p) \/ PDrain(p) \/ PDbWrite(p) \/ PRootAfter(p) \/ PRet(p)
                                                 \/ RReadEpoch(p) \/ RNode(p))
EveryCallReturns == <>Quiescent
FlagEventuallyReleased == txnActive ~> ~txnActive
=============================================================================
