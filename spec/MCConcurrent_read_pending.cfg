CONSTANTS
  Publishers = {"A", "B"}
  Readers = {"r"}
  RemoteReaders = {}
  LockFreeReaders = {}
  Keys <- KeysSeq
  HasCache = TRUE
  MaxFaults = 0
  InitEpochs = 2
  ReaderLag = 0
  RecheckEpochAfterBegin = TRUE
  FlagHeldThroughDbWrite = TRUE
  RootHashBeforeCommit = TRUE
  PrevEpochChecked = TRUE
  ReadersSeePendingEpoch = TRUE
  RollbackReleasesFlag = TRUE
  ExportSched = FALSE
VIEW View
INIT MCInit
NEXT MCNext
INVARIANTS AnswersArePublished EpochsDistinct FinalEqualsSerial
CHECK_DEADLOCK FALSE
