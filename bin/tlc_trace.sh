#!/bin/bash
# usage: tlc_trace.sh <TraceModule> <cfg> <trace.ndjson> <metadir>
# validates one trace file with TLC (single worker, depth-first queue)
set -u
MOD=$1; CFG=$2; TRACE=$3; MD=$4
cd /verif/spec
export TRACE
export JAVA_TOOL_OPTIONS="-Xss1g -Xmx3g -Dtlc2.tool.queue.IStateQueue=StateDeque"
exec timeout ${TLC_TIMEOUT:-1200} tlc -workers 1 -metadir "$MD" -cleanup -noGenerateSpecTE -config "$CFG" "$MOD.tla"
