---------------------------- MODULE AkdProofGame ----------------------------
(***************************************************************************)
(* The client verifiers at leaf-set abstraction (akd_core/src/verify/       *)
(* lookup.rs, history.rs): given sound membership / non-membership proofs   *)
(* (C05) and VRF binding of node labels (C18), a lookup or history proof is *)
(* accepted exactly when the claimed leaves are / are not in the tree.      *)
(* T is a set of leaves <<label, "F"|"S", version, value, epoch>>: the      *)
(* honest Leaves of AkdDirectory, or any set a dishonest server built.      *)
(* A claim is <<value, version, epoch>> (what the verifier would report).   *)
(***************************************************************************)
EXTENDS AkdDirectory

HasLeaf(T, x, f, v) == \E lf \in T : lf[1] = x /\ lf[2] = f /\ lf[3] = v
LeafIs(T, x, f, v, val, ep) == <<x, f, v, val, ep>> \in T

(* lookup_verify: version <= epoch; fresh(version) with this value and epoch; marker present; stale(version) absent *)
LookupAccepts(T, E, x, c, marker) ==
  /\ c[2] >= 1 /\ c[2] <= E
  /\ marker = Pow2Floor(c[2])
  /\ LeafIs(T, x, "F", c[2], c[1], c[3])
  /\ HasLeaf(T, x, "F", marker)
  /\ ~HasLeaf(T, x, "S", c[2])

(* key_history_verify; claims newest first; n = 0 is Complete; past / future = the version lists the *)
(* proof carries marker proofs for (only their number is checked against the expected lists)          *)
HistoryShapeOK(E, claims, n, past, future) ==
  LET k == Len(claims)
      start == claims[k][2]
      end == claims[1][2]
  IN /\ k >= 1
     /\ \A i \in 2..k : claims[i][2] + 1 = claims[i - 1][2]
     /\ start >= 1
     /\ end <= E
     /\ (n = 0 => start = 1)
     /\ (n > 0 => (k <= n /\ (k < n => start = 1)))
     /\ Len(past) = Len(PastMarkers(start))
     /\ Len(future) = Len(FutureMarkers(end, E))

HistoryAccepts(T, E, x, claims, n, mode, past, future) ==
  /\ Len(claims) >= 1
  /\ HistoryShapeOK(E, claims, n, past, future)
  /\ LET k == Len(claims)
         start == claims[k][2]
         end == claims[1][2]
     IN /\ \A i \in 2..k : claims[i][3] <= claims[i - 1][3]            \* epochs do not increase going back
        /\ \A i \in 1..k :
             LET c == claims[i] IN
             /\ IF mode = "allow" /\ c[1] = Empty
                  THEN HasLeaf(T, x, "F", c[2])                         \* value not checked (nor its epoch)
                  ELSE LeafIs(T, x, "F", c[2], c[1], c[3])
             /\ c[2] > 1 => LeafIs(T, x, "S", c[2] - 1, "-", c[3])      \* previous version retired in this very epoch
        /\ past = PastMarkers(start) /\ future = FutureMarkers(end, E)   \* the proofs carried are for the expected versions
        /\ \A i \in 1..Len(past) : HasLeaf(T, x, "F", past[i])
        /\ \A i \in 1..Len(future) : ~HasLeaf(T, x, "F", future[i])

---------------------------------------------------------------------------
(* C06 / C07 on honest trees: what can be accepted at all *)

LookupClaims == { <<val, v, e>> : val \in Values, v \in 1..(epoch + 1), e \in 1..(IF epoch = 0 THEN 1 ELSE epoch) }

LookupOnlyLatest ==
  \A x \in Labels : \A c \in LookupClaims :
     LookupAccepts(Leaves, epoch, x, c, Pow2Floor(c[2])) => (Published(x) /\ c = LookupOut(x))

(* every list of consecutive versions with any values / epochs from the small universe *)
RECURSIVE ClaimLists(_, _)
ClaimLists(top, k) ==     \* lists of k claims for versions top, top-1, ...
  IF k = 0 THEN { <<>> }
  ELSE { <<c>> \o rest : c \in { <<val, top, e>> : val \in Values \cup {Empty}, e \in 1..(IF epoch = 0 THEN 1 ELSE epoch) },
                         rest \in ClaimLists(top - 1, k - 1) }

(* KNOWN FINDING (C07): when the verifier allows missing values and version 1 is presented as a tombstone, *)
(* nothing binds the epoch claimed for it (a tombstoned entry's leaf hash cannot be recomputed, and        *)
(* version 1 has no stale predecessor whose leaf carries the epoch).                                        *)
UnboundEpochCase(mode, c) == mode = "allow" /\ c[1] = Empty /\ c[2] = 1

TrueEntries(x, cl, mode, exempt) ==      \* the claims equal the true entries of exactly these versions (tombstoned values show as empty)
  \A i \in 1..Len(cl) :
     LET v == cl[i][2] IN
     /\ v \in 1..Len(hist[x]) /\ cl[i][2] = v
     /\ (cl[i][3] = hist[x][v].ep \/ (exempt /\ UnboundEpochCase(mode, cl[i])))
     /\ (cl[i][1] = hist[x][v].val \/ cl[i][1] = Empty)

HistoryOnlyTruthX(exempt) ==
  \A x \in Labels : \A top \in 1..(epoch + 1) : \A k \in 1..top :
     \A cl \in ClaimLists(top, k) : \A n \in 0..(epoch + 1) : \A mode \in {"default", "allow"} :
        LET start == top - k + 1 IN
        HistoryAccepts(Leaves, epoch, x, cl, n, mode, PastMarkers(start), FutureMarkers(top, epoch)) =>
          /\ Published(x)
          /\ top = Len(hist[x])                                        \* cannot hide the newest versions, nor invent newer ones
          /\ k = HistoryCount(x, n)                                    \* all of them, or exactly the newest min(N, total)
          /\ TrueEntries(x, cl, mode, exempt)
          /\ (mode = "default" => \A i \in 1..k : cl[i][1] = hist[x][cl[i][2]].val)   \* a tombstone is accepted only when opted in

HistoryOnlyTruth == HistoryOnlyTruthX(TRUE)
(* expected to be violated: the witness of the known finding *)
HistoryOnlyTruthNoExemption == HistoryOnlyTruthX(FALSE)
=============================================================================
