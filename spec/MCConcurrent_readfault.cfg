CONSTANTS
  Publishers = {"A"}
  Readers = {"r", "s"}
  RemoteReaders = {"s"}
  LockFreeReaders = {}
  Keys <- KeysSeq
  HasCache = TRUE
  MaxFaults = 1
  InitEpochs = 2
  ReaderLag = 1
  RecheckEpochAfterBegin = TRUE
  FlagHeldThroughDbWrite = TRUE
  RootHashBeforeCommit = TRUE
  PrevEpochChecked = TRUE
  ReadersSeePendingEpoch = FALSE
  RollbackReleasesFlag = TRUE
  ExportSched = FALSE
VIEW View
INIT MCInit
NEXT MCNext
INVARIANTS AnswersArePublished AtomicFailure
CHECK_DEADLOCK FALSE
