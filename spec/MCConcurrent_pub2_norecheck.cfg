CONSTANTS
  Publishers = {"A", "B"}
  Readers = {}
  RemoteReaders = {}
  LockFreeReaders = {}
  Keys <- KeysSeq
  HasCache = FALSE
  MaxFaults = 0
  InitEpochs = 0
  ReaderLag = 0
  RecheckEpochAfterBegin = FALSE
  FlagHeldThroughDbWrite = TRUE
  RootHashBeforeCommit = TRUE
  PrevEpochChecked = TRUE
  ReadersSeePendingEpoch = FALSE
  RollbackReleasesFlag = TRUE
  ExportSched = FALSE
VIEW View
INIT MCInit
NEXT MCNext
INVARIANTS EpochsDistinct ReturnedPairsStayPublished FinalEqualsSerial NoTxnLeftOpen
CHECK_DEADLOCK FALSE
