CONSTANTS
  Labels = {"a", "b"}
  Values = {"x", "y"}
  MaxEpoch = 3
  MaxBatch = 2
  MaxPerEpoch = 2
  Export = FALSE
  WithOther = FALSE
INIT MCInit
NEXT MCNext
VIEW View
INVARIANTS LookupOnlyLatest HistoryOnlyTruth
CHECK_DEADLOCK FALSE
