------------------------------ MODULE MCLabels ------------------------------
(* TLC checks the algebraic laws of AkdLabels exhaustively on small domains. *)
EXTENDS AkdLabels, TLC
CONSTANTS LawDepth, TripleDepth, SetDepth, SetSize
VARIABLE x

PairLaws == \A p \in BitStrings(LawDepth) : \A q \in BitStrings(LawDepth) : LawsFor(p, q)
TripleLaws == \A p \in BitStrings(TripleDepth) : \A q \in BitStrings(TripleDepth) : \A r \in BitStrings(TripleDepth) :
                 LcpIsLongest(p, q, r)
SmallSets == { S \in SUBSET BitStrings(SetDepth) : Cardinality(S) >= 1 /\ Cardinality(S) <= SetSize }
SetLawsHold == \A S \in SmallSets : SetLaws(S)
(* the LCP of a set does not depend on the order in which it is folded (sorted vs unsorted representation) *)
SetLcpIsGlb == \A S \in SmallSets : \A r \in BitStrings(SetDepth) :
                  (\A q \in S : IsPrefixOf(r, q)) <=> IsPrefixOf(r, SetLcp(S))

Init == x = 0 /\ PrintT(<<"pairs", Cardinality(BitStrings(LawDepth)) * Cardinality(BitStrings(LawDepth)), "sets", Cardinality(SmallSets)>>)
Next == UNCHANGED x
Inv == PairLaws /\ TripleLaws /\ SetLawsHold /\ SetLcpIsGlb
=============================================================================
