CONSTANTS
  MaxE = 12
INIT Init
NEXT Next
INVARIANTS NoGap
CHECK_DEADLOCK FALSE
