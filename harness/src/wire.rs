//! Protobuf wire path (C19): convert proofs to messages, to bytes and back.

use akd::{AkdLabel, Configuration, Digest, EpochHash, HistoryVerificationParams};
use akd_core::proto::specs::types as pb;
use protobuf::Message;
use serde_json::{json, Value};

pub fn wire_lookup<TC: Configuration>(pk: &[u8], eh: &EpochHash, l: &AkdLabel, proof: &akd::LookupProof) -> Value {
    let msg = pb::LookupProof::from(proof);
    let bytes = msg.write_to_bytes().unwrap();
    let back = pb::LookupProof::parse_from_bytes(&bytes).ok().and_then(|m| akd::LookupProof::try_from(&m).ok());
    match back {
        None => json!({"ev": "wire", "kind": "lookup", "roundtrip": false, "same": false}),
        Some(p2) => {
            let eq = &p2 == proof;
            let r1 = akd::client::lookup_verify::<TC>(pk, eh.1, eh.0, l.clone(), proof.clone());
            let r2 = akd::client::lookup_verify::<TC>(pk, eh.1, eh.0, l.clone(), p2);
            let same = match (&r1, &r2) {
                (Ok(a), Ok(b)) => a == b,
                (Err(_), Err(_)) => true,
                _ => false,
            };
            json!({"ev": "wire", "kind": "lookup", "roundtrip": eq, "same": same})
        }
    }
}

pub fn wire_history<TC: Configuration>(
    pk: &[u8],
    eh: &EpochHash,
    l: &AkdLabel,
    proof: &akd::HistoryProof,
    vp: HistoryVerificationParams,
) -> Value {
    let msg = pb::HistoryProof::from(proof);
    let bytes = msg.write_to_bytes().unwrap();
    let back = pb::HistoryProof::parse_from_bytes(&bytes).ok().and_then(|m| akd::HistoryProof::try_from(&m).ok());
    match back {
        None => json!({"ev": "wire", "kind": "history", "roundtrip": false, "same": false}),
        Some(p2) => {
            let eq = &p2 == proof;
            let r1 = akd::client::key_history_verify::<TC>(pk, eh.1, eh.0, l.clone(), proof.clone(), vp);
            let r2 = akd::client::key_history_verify::<TC>(pk, eh.1, eh.0, l.clone(), p2, vp);
            let same = match (&r1, &r2) {
                (Ok(a), Ok(b)) => a == b,
                (Err(_), Err(_)) => true,
                _ => false,
            };
            json!({"ev": "wire", "kind": "history", "roundtrip": eq, "same": same})
        }
    }
}

pub async fn wire_audit<TC: Configuration>(hashes: &[Digest], proof: &akd::AppendOnlyProof) -> Value {
    let msg = pb::AppendOnlyProof::from(proof);
    let bytes = msg.write_to_bytes().unwrap();
    let back = pb::AppendOnlyProof::parse_from_bytes(&bytes).ok().and_then(|m| akd::AppendOnlyProof::try_from(&m).ok());
    match back {
        None => json!({"ev": "wire", "kind": "audit", "roundtrip": false, "same": false}),
        Some(p2) => {
            let eq = &p2 == proof;
            let r1 = akd::auditor::audit_verify::<TC>(hashes.to_vec(), proof.clone()).await.is_ok();
            let r2 = akd::auditor::audit_verify::<TC>(hashes.to_vec(), p2).await.is_ok();
            json!({"ev": "wire", "kind": "audit", "roundtrip": eq, "same": r1 == r2})
        }
    }
}
