//! C17: node-label operations of the real code recorded for TLC (TraceLabels.tla / AkdLabels.tla).
//! Model labels (bit strings of <= K bits) are stretched to real lengths 0..256 with adversarial
//! filler bits; prefix, LCP, direction and order correspond exactly under the stretch.

use crate::common::*;
use akd::{AzksElement, AzksValue, Configuration, NodeLabel, PrefixOrdering};
use serde_json::{json, Value};

fn get_bit(v: &[u8; 32], i: u32) -> u8 {
    (v[(i / 8) as usize] >> (7 - (i % 8))) & 1
}
fn set_bit(v: &mut [u8; 32], i: u32, b: u8) {
    let m = 1u8 << (7 - (i % 8));
    if b == 1 {
        v[(i / 8) as usize] |= m;
    } else {
        v[(i / 8) as usize] &= !m;
    }
}

pub struct LStretch {
    /// pos[i] = real position of model bit i (i < K); pos[K] = real length of a K-bit model label
    pub pos: Vec<u32>,
    pub filler: [u8; 32],
}

impl LStretch {
    pub fn k(&self) -> usize {
        self.pos.len() - 1
    }
    pub fn to_real(&self, bits: &[u8], garbage: bool) -> NodeLabel {
        let mut v = self.filler;
        for (i, b) in bits.iter().enumerate() {
            set_bit(&mut v, self.pos[i], *b);
        }
        let len = self.pos[bits.len()];
        for i in len..256 {
            set_bit(&mut v, i, if garbage { 1 - get_bit(&self.filler, i) } else { 0 });
        }
        NodeLabel::new(v, len)
    }
    pub fn to_model(&self, l: &NodeLabel) -> Value {
        match self.pos.iter().position(|p| *p == l.label_len) {
            None => json!([9, l.label_len]),
            Some(k) => {
                let bits: Vec<u8> = (0..k).map(|i| get_bit(&l.label_val, self.pos[i])).collect();
                if self.to_real(&bits, false) == *l {
                    json!(bits)
                } else {
                    json!([8, l.label_len])
                }
            }
        }
    }
}

fn all_labels(k: usize) -> Vec<Vec<u8>> {
    let mut out = vec![];
    for len in 0..=k {
        for i in 0..(1u32 << len) {
            out.push((0..len).map(|b| ((i >> (len - 1 - b)) & 1) as u8).collect());
        }
    }
    out
}

fn ord_name(o: PrefixOrdering) -> &'static str {
    match o {
        PrefixOrdering::WithZero => "L",
        PrefixOrdering::WithOne => "R",
        PrefixOrdering::Invalid => "I",
    }
}

/// pairs: all pairs of model labels up to K bits
pub fn pair_events<TC: Configuration>(st: &LStretch, tr: &mut Tracer, st_json: &Value) {
    let labels = all_labels(st.k());
    for a in labels.iter() {
        let ra = st.to_real(a, false);
        let ra_g = st.to_real(a, true);
        // prefixes of a at every model boundary
        let prefs: Vec<Value> = (0..=a.len()).map(|j| st.to_model(&ra.get_prefix(st.pos[j]))).collect();
        tr.emit(json!({"ev": "prefixes", "a": a, "out": prefs, "st": st_json}));
        let mut row = vec![];
        for b in labels.iter() {
            let rb = st.to_real(b, false);
            let cmp = match ra.cmp(&rb) {
                std::cmp::Ordering::Less => "lt",
                std::cmp::Ordering::Equal => "eq",
                std::cmp::Ordering::Greater => "gt",
            };
            row.push(json!([b, ra.is_prefix_of(&rb), ra_g.is_prefix_of(&rb), st.to_model(&ra.get_longest_common_prefix::<TC>(rb)),
                ord_name(ra.get_prefix_ordering(rb)), ord_name(ra_g.get_prefix_ordering(rb)), cmp]));
        }
        tr.emit(json!({"ev": "pairs", "a": a, "row": row}));
    }
}

#[cfg(facebook_akd_verif)]
pub fn set_events<TC: Configuration>(st: &LStretch, sets: &Value, tr: &mut Tracer) {
    for s in sets.as_array().unwrap() {
        let labs: Vec<Vec<u8>> = s["set"].as_array().unwrap().iter().map(|x| x.as_array().unwrap().iter().map(|y| y.as_u64().unwrap() as u8).collect()).collect();
        let prefix: Vec<u8> = s["p"].as_array().unwrap().iter().map(|y| y.as_u64().unwrap() as u8).collect();
        let elems: Vec<AzksElement> = labs.iter().map(|b| AzksElement { label: st.to_real(b, false), value: AzksValue([0u8; 32]) }).collect();
        let (nat, uns) = akd::verif_hooks::element_set_ops::<TC>(elems, st.to_real(&prefix, false));
        let side = |v: &Vec<AzksElement>| -> Value { Value::Array(v.iter().map(|e| st.to_model(&e.label)).collect()) };
        let one = |o: &akd::verif_hooks::ElementSetOps| -> Value {
            json!({"bs": o.binary_searchable, "left": side(&o.left), "right": side(&o.right), "lcp": st.to_model(&o.lcp), "contains": o.contains_prefix})
        };
        tr.emit(json!({"ev": "setops", "set": labs, "p": prefix, "nat": one(&nat), "uns": one(&uns)}));
    }
}

#[cfg(not(facebook_akd_verif))]
pub fn set_events<TC: Configuration>(_st: &LStretch, _sets: &Value, _tr: &mut Tracer) {}

/// behaviour: {"cfg","pos":[...K+1 positions],"filler":n,"pairs":bool,"sets":[{"set":[labels],"p":label}]}
pub fn main_labels(args: &[String]) {
    let input = arg_val(args, "--in").expect("--in");
    let out = arg_val(args, "--out").expect("--out");
    let threads: usize = arg_val(args, "--threads").map(|s| s.parse().unwrap()).unwrap_or(8);
    let behaviours = read_ndjson(&input);
    let (n, total) = crate::dirdrv::run_parallel(behaviours, &out, threads, |b| async move {
        let mut tr = Tracer::new();
        let pos: Vec<u32> = b["pos"].as_array().unwrap().iter().map(|x| x.as_u64().unwrap() as u32).collect();
        let seed = b["filler"].as_u64().unwrap_or(0);
        let filler = match seed {
            0 => [0u8; 32],
            1 => [0xFFu8; 32],
            2 => [0xAAu8; 32],
            s => *blake3::hash(&s.to_be_bytes()).as_bytes(),
        };
        let st = LStretch { pos: pos.clone(), filler };
        let stj = json!({"pos": pos, "filler": seed});
        let wa = b["cfg"].as_str().unwrap_or("wa") == "wa";
        if b["pairs"].as_bool().unwrap_or(false) {
            if wa { pair_events::<Wa>(&st, &mut tr, &stj) } else { pair_events::<Exp>(&st, &mut tr, &stj) }
        }
        if b["sets"].is_array() {
            if wa { set_events::<Wa>(&st, &b["sets"], &mut tr) } else { set_events::<Exp>(&st, &b["sets"], &mut tr) }
        }
        tr
    });
    println!("{}", json!({"behaviours": n, "events": total}));
}
