------------------------------- MODULE AkdWire -------------------------------
(***************************************************************************)
(* Binding tables for C18 and C19.                                          *)
(*                                                                          *)
(* C18: the VRF input is I2OSP8(len(label)) || label || freshness || ver8   *)
(* (configuration get_hash_from_label_input); TLC proves this encoding      *)
(* injective on a bounded byte domain (freshness and version have fixed     *)
(* width, so even the variant without the length prefix is injective - TLC  *)
(* confirms both), and VerifyLabel is a predicate over an injective Vrf: it *)
(* accepts exactly the unaltered inputs.                                    *)
(*                                                                          *)
(* C19: which malformations of a protobuf message the TryFrom conversions   *)
(* must refuse (akd_core/src/proto/mod.rs) and what a fuzzed encoding may   *)
(* do.                                                                      *)
(***************************************************************************)
EXTENDS Naturals, Sequences, FiniteSets

Byte == {0, 1}                                  \* a two-symbol "byte" alphabet
Labels3 == UNION { [1..k -> Byte] : k \in 0..3 }
Freshness == {0, 1}
Versions == { <<0,0>>, <<0,1>>, <<1,0>>, <<1,1>> }      \* fixed-width (8 bytes in the code, 2 symbols here)
I2OSP(n) == << n \div 2, n % 2 >>                \* fixed-width length prefix (8 bytes in the code)

LabelInput(l, f, v) == I2OSP(Len(l)) \o l \o <<f>> \o v
LabelInputNoPrefix(l, f, v) == l \o <<f>> \o v

Inputs == Labels3 \X Freshness \X Versions
EncodingInjective == \A a \in Inputs : \A b \in Inputs : a # b => LabelInput(a[1], a[2], a[3]) # LabelInput(b[1], b[2], b[3])
(* also holds: the suffix has fixed width, so the total length determines the label length *)
NoPrefixInjective == \A a \in Inputs : \A b \in Inputs : a # b => LabelInputNoPrefix(a[1], a[2], a[3]) # LabelInputNoPrefix(b[1], b[2], b[3])

(* VerifyLabel over an injective Vrf (a term): accepted iff nothing was altered *)
Vrf(k, l, f, v) == <<"vrf", k, LabelInput(l, f, v)>>
VerifyLabel(k, l, f, v, proofFor, nodeLabel) == proofFor = Vrf(k, l, f, v) /\ nodeLabel = proofFor
Keys == {"k1", "k2"}
VerifyTable ==
  \A k \in Keys : \A a \in Inputs : \A k2 \in Keys : \A b \in Inputs :
     VerifyLabel(k2, b[1], b[2], b[3], Vrf(k, a[1], a[2], a[3]), Vrf(k, a[1], a[2], a[3])) <=> (k = k2 /\ a = b)

(* the decision table as the trace reports it: which single alteration was applied *)
RowAccepted(alter) == alter = "none"

(* C19: classes of malformation and what decoding must do with them *)
MustRefuse == {"required", "size", "range", "count"}
MayAccept == {"none", "optional", "surplus"}
DecodeOK(class, res) ==
  /\ res # "panic"
  /\ (class \in MustRefuse => res = "err")
  /\ (class = "none" => res = "ok")
FuzzOK(res) == res \in {"err", "same", "unverifiable"}
=============================================================================
