CONSTANTS
  MaxE = 96
INIT Init
NEXT Next
INVARIANTS ShapeInv HistHistAgree ExportGaps
CHECK_DEADLOCK FALSE
