---- MODULE MCWire ----
EXTENDS AkdWire
VARIABLE x
Init == x = 0
Next == UNCHANGED x
Inv == EncodingInjective /\ VerifyTable /\ NoPrefixInjective
====
