CONSTANTS
  D = 4
  PrevEpochChecked = TRUE
  ChildPrefixChecked = TRUE
  PrefixFreeChecked = TRUE
  TopLabelChecked = TRUE
INIT TInit
NEXT TNext
CONSTRAINT Track
POSTCONDITION Accepted
CHECK_DEADLOCK FALSE
