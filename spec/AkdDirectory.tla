--------------------------- MODULE AkdDirectory ---------------------------
(***************************************************************************)
(* The auditable key directory at the level of its public API              *)
(* (akd/src/directory.rs): publish, lookup, batch lookup, key history,     *)
(* audit, epoch hash, and the storage manager's tombstoning.               *)
(*                                                                         *)
(* State is what the directory has *committed to*: for every user label    *)
(* the sequence of its versions (value, epoch of the update, tombstoned?). *)
(* Everything the API returns is a function of that state:                 *)
(*   - the leaf set of the Merkle Patricia trie (Leaves),                  *)
(*   - hence the root hash (an injective function of the leaf set),        *)
(*   - the verified result of a lookup / history proof,                    *)
(*   - which audits are defined.                                           *)
(* Cryptography is symbolic: a hash is an injective term constructor, so   *)
(* "the root hash of epoch e" is identified with the leaf set as of e.     *)
(*                                                                         *)
(* The value "e" stands for the empty byte string, which is akd's          *)
(* TOMBSTONE constant: publishing it and tombstoning coincide in storage.  *)
(***************************************************************************)
EXTENDS AkdMarkers

CONSTANTS Labels,     \* user labels (strings)
          Values      \* values (strings), may contain "e" (the empty value)

VARIABLES epoch,      \* current epoch (Azks.latest_epoch)
          hist,       \* hist[x] = sequence of [val, ep, tomb], oldest first; index = version
          effective   \* number of publish calls that changed at least one value

dvars == <<epoch, hist, effective>>

Empty == "e"

LastOf(s) == s[Len(s)]
MinOf(a, b) == IF a <= b THEN a ELSE b

(* the plaintext the storage layer holds for an entry *)
Stored(en) == IF en.tomb THEN Empty ELSE en.val

Init ==
  /\ epoch = 0
  /\ hist = [x \in Labels |-> <<>>]
  /\ effective = 0

---------------------------------------------------------------------------
(* publish: directory.rs:104-265.  A batch is a SEQUENCE of <<label, value>>*)
(* pairs, so that repeated labels exist.                                   *)

IsDup(b) == \E i, j \in 1..Len(b) : i # j /\ b[i][1] = b[j][1]

(* indices of pairs that are not a re-submission of the current value *)
Changes(b) == { i \in 1..Len(b) :
                  LET x == b[i][1] IN
                  \/ Len(hist[x]) = 0
                  \/ Stored(LastOf(hist[x])) # b[i][2] }

PublishResult(b) ==
  IF IsDup(b) THEN "err"
  ELSE IF Changes(b) = {} THEN "noop"
  ELSE "ok"

NewValue(b, x) == LET i == CHOOSE i \in Changes(b) : b[i][1] = x IN b[i][2]

Publish(b) ==
  /\ \A i \in 1..Len(b) : b[i][1] \in Labels /\ b[i][2] \in Values
  /\ IF PublishResult(b) = "ok"
       THEN /\ epoch' = epoch + 1
            /\ effective' = effective + 1
            /\ hist' = [x \in Labels |->
                         IF \E i \in Changes(b) : b[i][1] = x
                           THEN Append(hist[x], [val |-> NewValue(b, x), ep |-> epoch + 1, tomb |-> FALSE])
                           ELSE hist[x]]
       ELSE UNCHANGED dvars

(* A publish that only concerns labels OUTSIDE the modelled set (other users of the directory): a new *)
(* epoch and a new root hash, nothing changes for the modelled labels.  It is what makes the epoch    *)
(* run ahead of the versions, which the marker arithmetic of the proofs depends on.                   *)
PublishOther ==
  /\ epoch' = epoch + 1
  /\ effective' = effective + 1
  /\ UNCHANGED hist

---------------------------------------------------------------------------
(* StorageManager::tombstone_value_states(label, cut): manager/mod.rs:421.  *)
(* The property (C20) is about cut-offs before the label's latest update.  *)

CanTombstone(x, cut) == x \in Labels /\ Len(hist[x]) > 0 /\ cut < LastOf(hist[x]).ep

Tombstone(x, cut) ==
  /\ CanTombstone(x, cut)
  /\ hist' = [hist EXCEPT ![x] =
                [i \in 1..Len(hist[x]) |->
                   IF hist[x][i].ep <= cut /\ hist[x][i].val # Empty
                     THEN [hist[x][i] EXCEPT !.tomb = TRUE]
                     ELSE hist[x][i]]]
  /\ UNCHANGED <<epoch, effective>>

---------------------------------------------------------------------------
(* What the tree commits to.  A leaf is <<label, "F"|"S", version, value, epoch>>: *)
(* one fresh leaf per (label, version) with the value and the epoch of the update,  *)
(* one stale leaf per superseded version with the epoch in which it was superseded. *)

FreshLeaves(h) == UNION { { <<x, "F", v, h[x][v].val, h[x][v].ep>> : v \in 1..Len(h[x]) } : x \in Labels }
StaleLeaves(h) == UNION { { <<x, "S", v, "-", h[x][v+1].ep>> : v \in 1..(Len(h[x]) - 1) } : x \in Labels }
LeavesOf(h) == FreshLeaves(h) \cup StaleLeaves(h)
Leaves == LeavesOf(hist)

(* the leaves as of an earlier epoch t: what RootAt(t) hashes *)
LeavesAt(t) == { lf \in Leaves : lf[5] <= t }

(* what the root hash is a function of (tombstoning is invisible here) *)
Committed(h) == [x \in Labels |-> [i \in 1..Len(h[x]) |-> <<h[x][i].val, h[x][i].ep>>]]

---------------------------------------------------------------------------
(* Verified results of the read API *)

Published(x) == x \in Labels /\ Len(hist[x]) > 0

LookupOut(x) == LET n == Len(hist[x]) IN <<Stored(hist[x][n]), n, hist[x][n].ep>>

(* n = 0 encodes HistoryParams::Complete, n >= 1 MostRecent(n) *)
HistoryCount(x, n) == IF n = 0 THEN Len(hist[x]) ELSE MinOf(n, Len(hist[x]))
HistoryOut(x, n) ==
  LET total == Len(hist[x]) IN
  [i \in 1..HistoryCount(x, n) |->
     LET v == total - i + 1 IN <<Stored(hist[x][v]), v, hist[x][v].ep>>]
HistoryHasTombstone(x, n) ==
  LET total == Len(hist[x]) IN
  \E i \in 1..HistoryCount(x, n) : hist[x][total - i + 1].tomb
HistoryRes(x, n, mode) ==
  IF ~Published(x) THEN "err"
  ELSE IF mode = "default" /\ HistoryHasTombstone(x, n) THEN "rejected"
  ELSE "ok"

AuditDefined(s, e) == s < e /\ e <= epoch

(* the same results as of an earlier epoch t (what an instance that has fallen behind may serve) *)
HistAt(t) == [x \in Labels |-> SelectSeq(hist[x], LAMBDA en : en.ep <= t)]
PublishedAt(x, t) == x \in Labels /\ Len(HistAt(t)[x]) > 0
LookupOutAt(x, t) == LET h == HistAt(t)[x] n == Len(h) IN <<Stored(h[n]), n, h[n].ep>>
HistoryOutAt(x, n, t) ==
  LET h == HistAt(t)[x]
      total == Len(h)
      cnt == IF n = 0 THEN total ELSE MinOf(n, total)
  IN [i \in 1..cnt |-> LET v == total - i + 1 IN <<Stored(h[v]), v, h[v].ep>>]

---------------------------------------------------------------------------
(* Invariants *)

TypeOK ==
  /\ epoch \in Nat /\ effective \in Nat
  /\ \A x \in Labels : \A i \in 1..Len(hist[x]) :
        /\ hist[x][i].val \in Values
        /\ hist[x][i].ep \in 1..epoch
        /\ hist[x][i].tomb \in BOOLEAN

(* C01: the epoch counts the publishes that changed something *)
EpochCountsEffective == epoch = effective

(* C01: shape of the committed leaf set *)
LeafShape ==
  /\ \A x \in Labels : \A i \in 1..(Len(hist[x]) - 1) :
        /\ hist[x][i].ep < hist[x][i+1].ep                 \* one version per epoch at most
        /\ Stored(hist[x][i]) # hist[x][i+1].val \/ hist[x][i].tomb  \* successive values differ
  /\ \A lf \in Leaves : lf[2] = "S" =>
        \E g \in Leaves : g[1] = lf[1] /\ g[2] = "F" /\ g[3] = lf[3] + 1 /\ g[5] = lf[5]
  /\ Cardinality(FreshLeaves(hist)) + Cardinality(StaleLeaves(hist)) = Cardinality(Leaves)

(* when all publishes concern modelled labels (no PublishOther): every epoch inserted something *)
EveryEpochInserts == \A t \in 1..epoch : \E lf \in Leaves : lf[2] = "F" /\ lf[5] = t

(* C02/C06: on an honest tree exactly one version of a label looks "latest" to the   *)
(* lookup verifier: fresh(v) present, its marker present, stale(v) absent, v <= epoch *)
HasFresh(x, v) == \E lf \in Leaves : lf[1] = x /\ lf[2] = "F" /\ lf[3] = v
HasStale(x, v) == \E lf \in Leaves : lf[1] = x /\ lf[2] = "S" /\ lf[3] = v
LooksLatest(x, v) == HasFresh(x, v) /\ HasFresh(x, Pow2Floor(v)) /\ ~HasStale(x, v) /\ v <= epoch
LookupSoundOnHonest ==
  \A x \in Labels : \A v \in 1..(epoch + 1) : LooksLatest(x, v) <=> (Published(x) /\ v = Len(hist[x]))

(* C20: tombstoning never touches what is committed; C01: no-ops change nothing *)
CommittedOnlyGrows ==
  [][ /\ LeavesOf(hist) \subseteq LeavesOf(hist')
      /\ (epoch' = epoch => LeavesOf(hist') = LeavesOf(hist)) ]_dvars

=============================================================================
