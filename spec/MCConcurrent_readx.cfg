CONSTANTS
  Publishers = {"A"}
  Readers = {"r"}
  RemoteReaders = {}
  LockFreeReaders = {}
  Keys <- KeysSeq
  HasCache = TRUE
  MaxFaults = 0
  InitEpochs = 1
  ReaderLag = 0
  RecheckEpochAfterBegin = TRUE
  FlagHeldThroughDbWrite = TRUE
  RootHashBeforeCommit = TRUE
  PrevEpochChecked = TRUE
  ReadersSeePendingEpoch = FALSE
  RollbackReleasesFlag = TRUE
  ExportSched = TRUE
INIT MCInit
NEXT MCNext
INVARIANTS AnswersArePublished EpochsDistinct FinalEqualsSerial ExportAtEnd
CHECK_DEADLOCK FALSE
