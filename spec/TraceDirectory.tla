--------------------------- MODULE TraceDirectory ---------------------------
(* Trace validation of recorded executions of the real akd Directory         *)
(* against AkdDirectory.  One trace line per public call, with arguments and *)
(* the *verified* results (the harness runs akd's own client verifiers and   *)
(* records what they return).  Each line must be an enabled step of the      *)
(* specification with exactly these arguments and results; otherwise the     *)
(* trace is rejected and the first unmatched line is printed.                *)
(*                                                                           *)
(* Root digests appear as abstract ids (a prefix of the digest).  `roots`    *)
(* remembers the id published per epoch; `memo` remembers, across resets,    *)
(* the id seen for each committed state, per (configuration, concretization):*)
(* the root hash must be a function of the publish history alone (C01, C14), *)
(* and an injective one.                                                     *)
EXTENDS AkdProofGame, Json, IOUtils, TLC, SequencesExt

VARIABLES pos, roots, memo, ctx, saved, notified

tvars == <<dvars, pos, roots, memo, ctx, saved, notified>>

Rec == ndJsonDeserialize(IOEnv.TRACE)
Ev == Rec[pos]

IsEv(e) == pos <= Len(Rec) /\ Ev.ev = e /\ pos' = pos + 1

TInit ==
  /\ Init
  /\ pos = 1
  /\ roots = <<>>
  /\ memo = <<>>           \* a function with empty domain
  /\ ctx = <<"-", 0>>
  /\ saved = <<>>
  /\ notified = 0
  /\ TLCSet(1, 1)

MemoKey(c, h) == <<c, Committed(h)>>

MemoUpdate(c, h, r) ==
  LET k == MemoKey(c, h) IN
  IF k \in DOMAIN memo
    THEN /\ memo[k] = r                       \* same history, same configuration => same digest
         /\ memo' = memo
    ELSE /\ \A k2 \in DOMAIN memo : k2[1] = c => memo[k2] # r   \* different history => different digest
         /\ memo' = memo @@ (k :> r)

TReset ==
  /\ IsEv("reset")
  /\ epoch' = 0 /\ effective' = 0
  /\ hist' = [x \in Labels |-> <<>>]
  /\ roots' = <<Ev.root0>>
  /\ ctx' = <<Ev.cfg, Ev.conc>>
  /\ MemoUpdate(<<Ev.cfg, Ev.conc>>, [x \in Labels |-> <<>>], Ev.root0)
  /\ saved' = <<>> /\ notified' = 0

(* the body of a publish event whose call returned ok / noop / a specification-level error *)
PublishBody ==
  LET b == Ev.batch IN
     /\ Ev.res = PublishResult(b)
     /\ Publish(b)
     /\ Ev.txn_open = FALSE
     /\ IF Ev.res = "err"
          THEN UNCHANGED <<roots, memo>>
          ELSE /\ Ev.epoch = epoch'
               /\ Ev.root_ok                                   \* digest = reference hash of the real leaves
               /\ ToSet(Ev.leaves) = LeavesOf(hist')           \* and the real leaves are exactly these
               /\ Len(Ev.leaves) = Cardinality(LeavesOf(hist'))
               /\ IF Ev.res = "noop"
                    THEN /\ Ev.root = roots[epoch + 1]
                         /\ UNCHANGED <<roots, memo>>
                    ELSE /\ roots' = Append(roots, Ev.root)
                         /\ MemoUpdate(ctx, hist', Ev.root)

(* C10: a publish during which storage operation k failed. If it returned an error nothing may have *)
(* changed and no transaction may be left open; if the failure was tolerated it is a normal publish.  *)
TPublishFault ==
  /\ IsEv("publish_fault")
  /\ IF Ev.res = "err"
       THEN /\ Ev.txn_open = FALSE
            /\ UNCHANGED <<dvars, roots, memo>>
       ELSE PublishBody
  /\ UNCHANGED <<ctx, saved, notified>>

TSave == /\ IsEv("save") /\ saved' = <<epoch, hist, effective, roots>> /\ UNCHANGED <<dvars, roots, memo, ctx, notified>>
TRestore == /\ IsEv("restore") /\ saved # <<>>
            /\ epoch' = saved[1] /\ hist' = saved[2] /\ effective' = saved[3] /\ roots' = saved[4]
            /\ UNCHANGED <<memo, ctx, saved, notified>>

(* C13: an answer of an instance that may have fallen behind storage, or that ran concurrently with  *)
(* publishes: an error, or a really published (epoch, root) pair with results as of exactly that epoch *)
RootAt(t) == roots[t + 1]
(* C13: the change poller of the (remote) instance signalled a new epoch *)
TNotify ==
  /\ IsEv("notify")
  /\ IF Ev.res = "ok" THEN Ev.epoch = epoch /\ notified' = Ev.epoch ELSE UNCHANGED notified
  /\ UNCHANGED <<dvars, roots, memo, ctx, saved>>

AnsweredEpochOK == (Ev.res \in {"ok"} /\ Ev.kind \in {"epoch_hash", "lookup", "batch_lookup", "history"}) => Ev.epoch >= notified

TRAnswer ==
  /\ IsEv("ranswer")
  /\ AnsweredEpochOK
  /\ LET k == Ev.kind IN
     CASE k = "epoch_hash" ->
            Ev.res = "err" \/ (Ev.res = "ok" /\ Ev.epoch <= epoch /\ Ev.root = RootAt(Ev.epoch))
       [] k = "lookup" ->
            \/ Ev.res = "err"
            \/ /\ Ev.res = "ok" /\ Ev.epoch <= epoch /\ Ev.root = RootAt(Ev.epoch)
               /\ PublishedAt(Ev.label, Ev.epoch) /\ Ev.out = LookupOutAt(Ev.label, Ev.epoch)
       [] k = "batch_lookup" ->
            \/ Ev.res = "err"
            \/ /\ Ev.res = "ok" /\ Ev.epoch <= epoch /\ Ev.root = RootAt(Ev.epoch)
               /\ \A i \in 1..Len(Ev.labels) : PublishedAt(Ev.labels[i], Ev.epoch)
               /\ Ev.outs = [i \in 1..Len(Ev.labels) |-> LookupOutAt(Ev.labels[i], Ev.epoch)]
       [] k = "history" ->
            \/ Ev.res = "err"
            \/ /\ Ev.res = "ok" /\ Ev.epoch <= epoch /\ Ev.root = RootAt(Ev.epoch)
               /\ PublishedAt(Ev.label, Ev.epoch) /\ Ev.out = HistoryOutAt(Ev.label, Ev.n, Ev.epoch)
       [] k = "audit" ->
            \/ Ev.res = "refused"
            \/ Ev.res = "ok" /\ AuditDefined(Ev.s, Ev.e) /\ Ev.roots = SubSeq(roots, Ev.s + 1, Ev.e + 1)
       [] k = "wire" -> Ev.roundtrip /\ Ev.same
  /\ UNCHANGED <<dvars, roots, memo, ctx, saved, notified>>

(* C12: the calls of a concurrent run, serialised by the harness: effective publishes in the order of *)
(* the epochs they returned, then no-ops, then failed calls.  An effective call must be the next      *)
(* epoch of the serial specification; a failed call has no effect; a no-op call returned a published  *)
(* pair as of which its batch changes nothing.                                                         *)
NoChangeAt(b, t) ==
  \A i \in 1..Len(b) : LET h == HistAt(t)[b[i][1]] IN Len(h) > 0 /\ Stored(h[Len(h)]) = b[i][2]

TCPublish ==
  /\ IsEv("cpublish")
  /\ LET b == Ev.batch IN
     CASE Ev.res = "ok" ->
            /\ PublishResult(b) = "ok"
            /\ Publish(b)
            /\ Ev.epoch = epoch'
            /\ roots' = Append(roots, Ev.root)
            /\ MemoUpdate(ctx, hist', Ev.root)
       [] Ev.res = "noop" ->
            /\ ~IsDup(b) /\ Ev.epoch <= epoch /\ Ev.root = RootAt(Ev.epoch) /\ NoChangeAt(b, Ev.epoch)
            /\ UNCHANGED <<dvars, roots, memo>>
       [] Ev.res = "err" -> UNCHANGED <<dvars, roots, memo>>
  /\ UNCHANGED <<ctx, saved, notified>>

TFinalLeaves ==
  /\ IsEv("final_leaves")
  /\ Ev.epoch = epoch /\ Ev.root_ok /\ ~Ev.txn_open
  /\ ToSet(Ev.leaves) = LeavesOf(hist) /\ Len(Ev.leaves) = Cardinality(LeavesOf(hist))
  /\ UNCHANGED <<dvars, roots, memo, ctx, saved, notified>>

TPublish ==
  /\ IsEv("publish")
  /\ PublishBody
  /\ UNCHANGED <<ctx, saved, notified>>

(* a publish of labels outside the modelled set: a new epoch and root, the modelled leaves unchanged, the leaves it *)
(* must have left in the tree all there (counted by the harness); the foreign history becomes part of the memo key  *)
OtherToken == IF Len(ctx) >= 3 THEN ctx[3] ELSE <<>>
TPublishOther ==
  /\ IsEv("publish_other")
  /\ Ev.res = "ok" /\ Ev.txn_open = FALSE
  /\ PublishOther
  /\ Ev.epoch = epoch' /\ Ev.root_ok
  /\ ToSet(Ev.leaves) = LeavesOf(hist) /\ Len(Ev.leaves) = Cardinality(LeavesOf(hist))
  /\ Ev.other = Ev.other_expected
  /\ roots' = Append(roots, Ev.root)
  /\ ctx' = <<ctx[1], ctx[2], Append(OtherToken, <<epoch + 1, Ev.tag, Ev.count, Ev.version>>)>>
  /\ MemoUpdate(ctx', hist, Ev.root)
  /\ UNCHANGED <<saved, notified>>

TTombstone ==
  /\ IsEv("tombstone")
  /\ Ev.res = "ok"
  /\ Tombstone(Ev.label, Ev.cut)
  /\ UNCHANGED <<roots, memo, ctx, saved, notified>>

Same == UNCHANGED <<dvars, roots, memo, ctx, saved, notified>>

(* the tree the adversarial events refer to: ctx[1] = "dishonest" after a dtree event *)
tree == IF ctx[1] = "dishonest" THEN ctx[3] ELSE Leaves
treeEpoch == IF ctx[1] = "dishonest" THEN ctx[2] ELSE epoch

TDTree ==
  /\ IsEv("dtree")
  /\ ctx' = <<"dishonest", Ev.E, ToSet(Ev.leaves)>>
  /\ UNCHANGED <<dvars, roots, memo, saved, notified>>

CurRoot == roots[epoch + 1]

TEpochHash ==
  /\ IsEv("epoch_hash")
  /\ Ev.res = "ok" /\ Ev.epoch = epoch /\ Ev.root = CurRoot
  /\ Same

TLookup ==
  /\ IsEv("lookup")
  /\ IF Published(Ev.label)
       THEN Ev.res = "ok" /\ Ev.epoch = epoch /\ Ev.root = CurRoot /\ Ev.out = LookupOut(Ev.label)
       ELSE Ev.res = "err"
  /\ Same

TBatchLookup ==
  /\ IsEv("batch_lookup")
  /\ LET ls == Ev.labels IN
     IF \A i \in 1..Len(ls) : Published(ls[i])
       THEN /\ Ev.res = "ok" /\ Ev.epoch = epoch /\ Ev.root = CurRoot
            /\ Ev.outs = [i \in 1..Len(ls) |-> LookupOut(ls[i])]
       ELSE Ev.res = "err"
  /\ Same

THistory ==
  /\ IsEv("history")
  /\ Ev.res = HistoryRes(Ev.label, Ev.n, Ev.mode)
  /\ Ev.res # "err" => Ev.epoch = epoch /\ Ev.root = CurRoot
  /\ Ev.res = "ok" => Ev.out = HistoryOut(Ev.label, Ev.n)
  /\ Same

TAudit ==
  /\ IsEv("audit")
  /\ IF AuditDefined(Ev.s, Ev.e)
       THEN Ev.res = "ok" /\ Ev.roots = SubSeq(roots, Ev.s + 1, Ev.e + 1)
       ELSE Ev.res = "refused"
  /\ Same

(* C09: an audit proof with inconsistent lists or any replaced root hash is rejected *)
TAuditTamper ==
  /\ IsEv("audit_tamper")
  /\ AuditDefined(Ev.s, Ev.e)
  /\ ~Ev.accepted
  /\ Same

(* C11: a second instance opened at a crash point (part of the commit's records written, epoch *)
(* record not yet): the observations that follow are validated against the state BEFORE the   *)
(* publish, because the publish event itself is only consumed afterwards.                     *)
TCrash ==
  /\ IsEv("crash")
  /\ Ev.azks_last            \* the commit batch ends with the epoch record
  /\ Ev.applied < Ev.of      \* the epoch record was not applied
  /\ Same

(* C06 / C07 / C08: proofs assembled by the adversarial server against the current tree.  `tree` is the *)
(* honest Leaves, or - after a dtree event - the leaf set a dishonest server built.                      *)
TForgeLookup ==
  /\ IsEv("forge_lookup")
  /\ LET acc == LookupAccepts(tree, treeEpoch, Ev.label, Ev.claim, Ev.marker) IN
     /\ Ev.verdict = (IF acc THEN "accepted" ELSE "rejected")
     /\ acc => Ev.out = Ev.claim
     /\ (acc /\ ctx[1] # "dishonest") => (Published(Ev.label) /\ Ev.claim = LookupOut(Ev.label))     \* C06
  /\ Same

(* a lookup proof in which one sub-proof comes from another label is rejected (VRF binding, C18) *)
TForgeMix == IsEv("forge_mix") /\ Ev.verdict = "rejected" /\ Same

(* an honest proof of an earlier epoch verifies against the current root only if nothing was published since *)
TForgeStale ==
  /\ IsEv("forge_stale")
  /\ Ev.verdict = (IF Ev.from_epoch = epoch THEN "accepted" ELSE "rejected")
  /\ Ev.verdict = "accepted" => Ev.out = LookupOut(Ev.label)
  /\ Same

TForgeHistory ==
  /\ IsEv("forge_history")
  /\ LET acc == HistoryAccepts(tree, treeEpoch, Ev.label, Ev.claims, Ev.n, Ev.mode, Ev.past, Ev.future) IN
     /\ Ev.verdict = (IF acc THEN "accepted" ELSE "rejected")
     /\ acc => Ev.out = Ev.claims
  /\ Same

(* directory bootstrap (Directory::new / ReadOnlyDirectory::new): the read-only wrapper refuses storage *)
(* without an epoch record; a directory creates it at epoch 0; opening again changes nothing            *)
TBootstrap ==
  /\ IsEv("bootstrap")
  /\ ~Ev.readonly_on_empty /\ Ev.epoch_after_new = 0 /\ Ev.readonly_after_new /\ Ev.reopen_same_root
  /\ Same

(* C19: the protobuf wire path is the identity on proofs and on verification results *)
TWire ==
  /\ IsEv("wire")
  /\ Ev.roundtrip /\ Ev.same
  /\ Same

(* C14: re-creating the directory object / manager / read-only wrapper is invisible *)
TReopen ==
  /\ IsEv("reopen")
  /\ notified' = IF Ev.kind = "remote_open" THEN 0 ELSE notified
  /\ UNCHANGED <<dvars, roots, memo, ctx, saved>>

TNext ==
  \/ TReset \/ TPublish \/ TTombstone \/ TEpochHash \/ TLookup \/ TBatchLookup
  \/ THistory \/ TAudit \/ TAuditTamper \/ TWire \/ TReopen \/ TCrash
  \/ TBootstrap \/ TForgeLookup \/ TForgeHistory \/ TDTree \/ TForgeMix \/ TForgeStale
  \/ TPublishFault \/ TSave \/ TRestore \/ TRAnswer \/ TCPublish \/ TFinalLeaves \/ TNotify \/ TPublishOther

TSpec == TInit /\ [][TNext]_tvars

(* remember how far the trace was matched (single worker, linear behaviour) *)
Track == TLCSet(1, IF pos > TLCGet(1) THEN pos ELSE TLCGet(1))

Accepted ==
  LET reached == TLCGet(1) IN
  IF reached = Len(Rec) + 1
    THEN PrintT(<<"TRACE-ACCEPTED", Len(Rec)>>)
    ELSE /\ PrintT(<<"TRACE-REJECTED", reached, ToJson(Rec[reached])>>)
         /\ FALSE

(* every state reachable in a trace satisfies the specification's invariants too *)
TraceInv == TypeOK /\ EpochCountsEffective /\ (ctx[1] \in {"-", "dishonest"} \/ Len(roots) = epoch + 1)
=============================================================================
