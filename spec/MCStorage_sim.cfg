CONSTANTS
  Users = {"", "u", "w"}
  Epochs = {1, 2, 3, 4}
  Versions = {1, 2, 3, 4}
  Values = {"p", "q"}
  NodeNames = {"n1", "n2"}
  AzksEpochs = {1, 2, 3, 4}
  HasCache = TRUE
  CachePutBeforeDbWrite = FALSE
  BulkVersionsUsesEpoch = FALSE
  FillPolicy = "if_same_generation"
  FlushIgnoresCleanFlag = TRUE
  FlushBumpsGeneration = TRUE
  Export = TRUE
  MaxSteps = 100
  WithReads = TRUE
  SplitReads = FALSE
  WithExt = FALSE
INIT MCInit
NEXT MCNext
VIEW View
INVARIANTS TypeOK TxnReadsEqualPostCommit CacheTransparent
CHECK_DEADLOCK FALSE
