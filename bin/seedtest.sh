#!/bin/bash
# usage: seedtest.sh <patch.diff> <ID> [<ID>...]   applies the patch to /repo, runs the quick checks, restores /repo
PATCH=$1; shift
cd /repo || exit 2
if ! git diff --quiet; then echo "repo dirty"; exit 2; fi
git apply "$PATCH" || { echo "patch does not apply"; exit 2; }
for id in "$@"; do
  echo "=== $id on $PATCH"
  (cd /verif && VERIF_TIER=${TIER:-quick} bin/check $id 2>&1 | grep -E "VIOLATION|KNOWN|done in|TOOL ERROR|->" | cut -c1-400 | head -${LINES_MAX:-8})
done
git -C /repo checkout -- . && git -C /repo clean -fdq -- akd akd_core 2>/dev/null
git -C /repo status --short | head -3
