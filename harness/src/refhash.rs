//! Independent ("reference") implementation of the hash formulas of the two configurations,
//! written from the protocol description (akd_core/src/lib.rs) directly on blake3, plus the
//! canonical compressed-trie root over a set of leaves. Nothing in here calls into akd's
//! Configuration trait: it is the second opinion that the C01 check compares against.

pub type D = [u8; 32];

/// A label as a bit string: (32 bytes, length in bits); bits beyond len are zero.
#[derive(Clone, Copy, PartialEq, Eq, Hash, Debug, PartialOrd, Ord)]
pub struct RLabel {
    pub val: [u8; 32],
    pub len: u32,
}

impl RLabel {
    pub fn bit(&self, i: u32) -> u8 {
        (self.val[(i / 8) as usize] >> (7 - (i % 8))) & 1
    }
    pub fn prefix(&self, n: u32) -> RLabel {
        let mut v = [0u8; 32];
        for i in 0..n {
            if self.bit(i) == 1 {
                v[(i / 8) as usize] |= 1 << (7 - (i % 8));
            }
        }
        RLabel { val: v, len: n }
    }
    pub fn bytes(&self) -> Vec<u8> {
        let mut out = self.len.to_be_bytes().to_vec();
        out.extend_from_slice(&self.val);
        out
    }
}

pub fn lcp(a: &RLabel, b: &RLabel) -> RLabel {
    let m = a.len.min(b.len);
    let mut n = 0;
    while n < m && a.bit(n) == b.bit(n) {
        n += 1;
    }
    a.prefix(n)
}

pub trait RefCfg {
    fn h(data: &[u8]) -> D;
    /// the value of an absent child of the root
    fn empty_node() -> D;
    /// the label of an absent child of the root
    fn empty_label() -> RLabel;
    /// how a label enters a parent hash
    fn label_value(l: &RLabel) -> Vec<u8>;
    fn parent(lv: &D, ll: &RLabel, rv: &D, rl: &RLabel) -> D;
    fn root_from_val(v: &D) -> D;
    fn stale_value() -> D;
    fn nonce(ckey: &D, node_label: &RLabel, version: u64, value: &[u8]) -> D;
    /// value stored in the root of an empty tree
    fn empty_root_value() -> D;

    fn commitment(ckey: &D, node_label: &RLabel, version: u64, value: &[u8]) -> D {
        let n = Self::nonce(ckey, node_label, version, value);
        Self::commitment_from_nonce(value, &n)
    }
    fn commitment_from_nonce(value: &[u8], nonce: &[u8]) -> D {
        let mut data = (value.len() as u64).to_be_bytes().to_vec();
        data.extend_from_slice(value);
        data.extend_from_slice(&(nonce.len() as u64).to_be_bytes());
        data.extend_from_slice(nonce);
        Self::h(&data)
    }
    fn leaf(commitment: &D, epoch: u64) -> D {
        let mut data = commitment.to_vec();
        data.extend_from_slice(&epoch.to_be_bytes());
        Self::h(&data)
    }
    fn commitment_key(vrf_secret: &[u8]) -> D {
        Self::h(vrf_secret)
    }
    fn label_input(label: &[u8], fresh: bool, version: u64) -> Vec<u8> {
        let mut data = (label.len() as u64).to_be_bytes().to_vec();
        data.extend_from_slice(label);
        data.push(if fresh { 1 } else { 0 });
        data.extend_from_slice(&version.to_be_bytes());
        Self::h(&data).to_vec()
    }
}

pub struct RefWa;
pub struct RefExp;

impl RefCfg for RefWa {
    fn h(data: &[u8]) -> D {
        *blake3::hash(data).as_bytes()
    }
    fn empty_node() -> D {
        let mut data = Self::h(&[0u8]).to_vec();
        data.extend_from_slice(&Self::label_value(&Self::empty_label()));
        Self::h(&data)
    }
    fn empty_label() -> RLabel {
        RLabel {
            val: [1u8; 32],
            len: 0,
        }
    }
    fn label_value(l: &RLabel) -> Vec<u8> {
        Self::h(&l.bytes()).to_vec()
    }
    fn parent(lv: &D, ll: &RLabel, rv: &D, rl: &RLabel) -> D {
        let mut a = lv.to_vec();
        a.extend_from_slice(&Self::label_value(ll));
        let mut b = rv.to_vec();
        b.extend_from_slice(&Self::label_value(rl));
        let mut c = Self::h(&a).to_vec();
        c.extend_from_slice(&Self::h(&b));
        Self::h(&c)
    }
    fn root_from_val(v: &D) -> D {
        let mut data = v.to_vec();
        data.extend_from_slice(&Self::label_value(&RLabel {
            val: [0u8; 32],
            len: 0,
        }));
        Self::h(&data)
    }
    fn stale_value() -> D {
        Self::h(&[0u8])
    }
    fn nonce(ckey: &D, node_label: &RLabel, version: u64, value: &[u8]) -> D {
        let mut data = ckey.to_vec();
        data.extend_from_slice(&node_label.bytes());
        data.extend_from_slice(&version.to_be_bytes());
        data.extend_from_slice(&(value.len() as u64).to_be_bytes());
        data.extend_from_slice(value);
        Self::h(&data)
    }
    fn empty_root_value() -> D {
        Self::h(&[0u8])
    }
}

impl RefCfg for RefExp {
    fn h(data: &[u8]) -> D {
        let mut hasher = blake3::Hasher::new();
        hasher.update(b"ExampleLabel");
        hasher.update(data);
        *hasher.finalize().as_bytes()
    }
    fn empty_node() -> D {
        [0u8; 32]
    }
    fn empty_label() -> RLabel {
        let mut v = [0u8; 32];
        v[0] = 1;
        RLabel { val: v, len: 0 }
    }
    fn label_value(l: &RLabel) -> Vec<u8> {
        l.bytes()
    }
    fn parent(lv: &D, ll: &RLabel, rv: &D, rl: &RLabel) -> D {
        let mut a = lv.to_vec();
        a.extend_from_slice(&Self::label_value(ll));
        a.extend_from_slice(rv);
        a.extend_from_slice(&Self::label_value(rl));
        Self::h(&a)
    }
    fn root_from_val(v: &D) -> D {
        *v
    }
    fn stale_value() -> D {
        [0u8; 32]
    }
    fn nonce(ckey: &D, node_label: &RLabel, _version: u64, _value: &[u8]) -> D {
        let mut data = ckey.to_vec();
        data.extend_from_slice(&node_label.bytes());
        Self::h(&data)
    }
    fn empty_root_value() -> D {
        [0u8; 32]
    }
}

/// A leaf: (label, value already including the epoch, i.e. what enters the parent hash)
#[derive(Clone, Debug)]
pub struct RLeaf {
    pub label: RLabel,
    pub hashed: D,
}

/// Hash of the canonical compressed trie over `leaves` (any label lengths; must be prefix-free
/// and non-empty). Returns (label of the subtree root, its value).
fn subtree<C: RefCfg>(leaves: &[RLeaf]) -> (RLabel, D) {
    if leaves.len() == 1 {
        return (leaves[0].label, leaves[0].hashed);
    }
    let mut p = leaves[0].label;
    for l in &leaves[1..] {
        p = lcp(&p, &l.label);
    }
    let (mut left, mut right) = (vec![], vec![]);
    for l in leaves {
        if l.label.bit(p.len) == 0 {
            left.push(l.clone());
        } else {
            right.push(l.clone());
        }
    }
    let (ll, lv) = subtree::<C>(&left);
    let (rl, rv) = subtree::<C>(&right);
    (p, C::parent(&lv, &ll, &rv, &rl))
}

/// Value of the subtree over `leaves` as its parent sees it (None for an empty set).
pub fn ref_subtree<C: RefCfg>(leaves: &[RLeaf]) -> Option<(RLabel, D)> {
    if leaves.is_empty() {
        None
    } else {
        Some(subtree::<C>(leaves))
    }
}

/// Value stored in the root node (before the final root-hash step).
pub fn ref_root_val<C: RefCfg>(leaves: &[RLeaf]) -> D {
    if leaves.is_empty() {
        return C::empty_root_value();
    }
    let (mut left, mut right) = (vec![], vec![]);
    for l in leaves {
        if l.label.len == 0 {
            continue;
        }
        if l.label.bit(0) == 0 {
            left.push(l.clone());
        } else {
            right.push(l.clone());
        }
    }
    let side = |v: &Vec<RLeaf>| -> (RLabel, D) {
        if v.is_empty() {
            (C::empty_label(), C::empty_node())
        } else {
            subtree::<C>(v)
        }
    };
    let (ll, lv) = side(&left);
    let (rl, rv) = side(&right);
    C::parent(&lv, &ll, &rv, &rl)
}

/// Root digest of the canonical tree: the root always has the empty bit string as label,
/// even when all leaves share a longer prefix (then it has one real child and one placeholder).
pub fn ref_root<C: RefCfg>(leaves: &[RLeaf]) -> D {
    if leaves.is_empty() {
        return C::root_from_val(&C::empty_root_value());
    }
    let (mut left, mut right) = (vec![], vec![]);
    for l in leaves {
        if l.label.len == 0 {
            // cannot happen for real leaves
            continue;
        }
        if l.label.bit(0) == 0 {
            left.push(l.clone());
        } else {
            right.push(l.clone());
        }
    }
    let side = |v: &Vec<RLeaf>| -> (RLabel, D) {
        if v.is_empty() {
            (C::empty_label(), C::empty_node())
        } else {
            subtree::<C>(v)
        }
    };
    let (ll, lv) = side(&left);
    let (rl, rv) = side(&right);
    C::root_from_val(&C::parent(&lv, &ll, &rv, &rl))
}
