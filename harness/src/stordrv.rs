//! Storage-manager driver (C15, C16): replays operation sequences on a real StorageManager over
//! HookDb and records every call with its result plus a full query sweep (TraceStorage.tla).

use crate::common::*;
use crate::hookdb::HookDb;
use akd::append_only_zks::Azks;
use akd::errors::StorageError;
use akd::storage::manager::StorageManager;
use akd::storage::types::{DbRecord, ValueState, ValueStateKey, ValueStateRetrievalFlag};
use akd::tree_node::{NodeKey, TreeNode, TreeNodeType, TreeNodeWithPreviousValue};
use akd::{AkdLabel, AkdValue, AzksValue, NodeLabel};
use serde_json::{json, Value};
use std::time::Duration;

fn node_label(name: &str) -> NodeLabel {
    let d = blake3::hash(name.as_bytes());
    NodeLabel::new(*d.as_bytes(), 256)
}

fn val_bytes(v: &str) -> Vec<u8> {
    if v == "t" {
        vec![]
    } else {
        format!("value-{v}").into_bytes()
    }
}
fn val_name(b: &[u8]) -> String {
    if b.is_empty() {
        "t".to_string()
    } else {
        String::from_utf8_lossy(&b[6..]).to_string()
    }
}

pub fn rec_to_real(r: &Value) -> DbRecord {
    match r[0].as_str().unwrap() {
        "azks" => DbRecord::Azks(Azks { latest_epoch: r[1].as_u64().unwrap(), num_nodes: 1 }),
        "node" => {
            let l = node_label(r[1].as_str().unwrap());
            let ver = r[2].as_u64().unwrap();
            DbRecord::TreeNode(TreeNodeWithPreviousValue {
                label: l,
                latest_node: TreeNode {
                    label: l,
                    last_epoch: ver,
                    min_descendant_epoch: ver,
                    parent: NodeLabel::root(),
                    node_type: TreeNodeType::Leaf,
                    left_child: None,
                    right_child: None,
                    hash: AzksValue([ver as u8; 32]),
                },
                previous_node: None,
            })
        }
        "vs" => DbRecord::ValueState(ValueState {
            username: AkdLabel(r[1].as_str().unwrap().as_bytes().to_vec()),
            epoch: r[2].as_u64().unwrap(),
            version: r[3].as_u64().unwrap(),
            value: AkdValue(val_bytes(r[4].as_str().unwrap())),
            label: node_label("vs"),
        }),
        other => panic!("bad record kind {other}"),
    }
}

pub fn rec_to_json(r: &DbRecord, names: &[String]) -> Value {
    match r {
        DbRecord::Azks(a) => json!(["azks", a.latest_epoch]),
        DbRecord::TreeNode(n) => {
            let name = names.iter().find(|x| node_label(x) == n.label).cloned().unwrap_or("?".into());
            json!(["node", name, n.latest_node.last_epoch])
        }
        DbRecord::ValueState(v) => json!(["vs", String::from_utf8_lossy(&v.username.0), v.epoch, v.version, val_name(&v.value.0)]),
    }
}

fn flag_of(f: &Value) -> ValueStateRetrievalFlag {
    match f[0].as_str().unwrap() {
        "max" => ValueStateRetrievalFlag::MaxEpoch,
        "min" => ValueStateRetrievalFlag::MinEpoch,
        "leq" => ValueStateRetrievalFlag::LeqEpoch(f[1].as_u64().unwrap()),
        "epoch" => ValueStateRetrievalFlag::SpecificEpoch(f[1].as_u64().unwrap()),
        "version" => ValueStateRetrievalFlag::SpecificVersion(f[1].as_u64().unwrap()),
        other => panic!("bad flag {other}"),
    }
}

pub struct StorCtx {
    pub db: HookDb,
    pub m: StorageManager<HookDb>,
    pub users: Vec<String>,
    pub epochs: Vec<u64>,
    pub versions: Vec<u64>,
    pub nodes: Vec<String>,
    pub sleepy: bool,
}

fn res_of<T>(r: &Result<T, StorageError>) -> &'static str {
    match r {
        Ok(_) => "ok",
        Err(StorageError::NotFound(_)) => "notfound",
        Err(_) => "err",
    }
}

impl StorCtx {
    async fn get_key(&self, k: &Value, direct: bool) -> (Value, &'static str) {
        let r = match k[0].as_str().unwrap() {
            "azks" => {
                if direct {
                    self.m.get_direct::<Azks>(&akd::append_only_zks::DEFAULT_AZKS_KEY).await
                } else {
                    self.m.get::<Azks>(&akd::append_only_zks::DEFAULT_AZKS_KEY).await
                }
            }
            "node" => {
                let key = NodeKey(node_label(k[1].as_str().unwrap()));
                if direct {
                    self.m.get_direct::<TreeNodeWithPreviousValue>(&key).await
                } else {
                    self.m.get::<TreeNodeWithPreviousValue>(&key).await
                }
            }
            _ => {
                let key = ValueStateKey(k[1].as_str().unwrap().as_bytes().to_vec(), k[2].as_u64().unwrap());
                if direct {
                    self.m.get_direct::<ValueState>(&key).await
                } else {
                    self.m.get::<ValueState>(&key).await
                }
            }
        };
        let res = res_of(&r);
        match r {
            Ok(rec) => (json!([rec_to_json(&rec, &self.nodes)]), res),
            Err(_) => (json!([]), res),
        }
    }

    fn all_keys(&self) -> Vec<Value> {
        let mut ks = vec![json!(["azks"])];
        for n in &self.nodes {
            ks.push(json!(["node", n]));
        }
        for u in &self.users {
            for e in &self.epochs {
                ks.push(json!(["vs", u, e]));
            }
        }
        ks
    }

    fn all_flags(&self) -> Vec<Value> {
        let mut f = vec![json!(["max"]), json!(["min"])];
        for e in &self.epochs {
            f.push(json!(["leq", e]));
            f.push(json!(["epoch", e]));
        }
        for v in &self.versions {
            f.push(json!(["version", v]));
        }
        f
    }

    pub async fn sweep(&self, tr: &mut Tracer) {
        // hidden state first: is a transaction open? (two histories that end in the same visible data may differ here)
        tr.emit(json!({"ev": "txn_state", "active": self.m.is_transaction_active()}));
        for k in self.all_keys() {
            let (out, res) = self.get_key(&k, false).await;
            tr.emit(json!({"ev": "get", "key": k, "res": res, "out": out}));
            let (out, res) = self.get_key(&k, true).await;
            tr.emit(json!({"ev": "direct", "key": k, "res": res, "out": out}));
        }
        // batch gets per record type
        let nkeys: Vec<NodeKey> = self.nodes.iter().map(|n| NodeKey(node_label(n))).collect();
        if let Ok(recs) = self.m.batch_get::<TreeNodeWithPreviousValue>(&nkeys).await {
            let out: Vec<Value> = recs.iter().map(|r| rec_to_json(r, &self.nodes)).collect();
            tr.emit(json!({"ev": "batch_get", "keys": self.nodes.iter().map(|n| json!(["node", n])).collect::<Vec<_>>(), "res": "ok", "out": out}));
        } else {
            tr.emit(json!({"ev": "batch_get", "keys": [], "res": "err", "out": []}));
        }
        let mut vkeys = vec![];
        let mut vkj = vec![];
        for u in &self.users {
            for e in &self.epochs {
                vkeys.push(ValueStateKey(u.as_bytes().to_vec(), *e));
                vkj.push(json!(["vs", u, e]));
            }
        }
        if let Ok(recs) = self.m.batch_get::<ValueState>(&vkeys).await {
            let out: Vec<Value> = recs.iter().map(|r| rec_to_json(r, &self.nodes)).collect();
            tr.emit(json!({"ev": "batch_get", "keys": vkj, "res": "ok", "out": out}));
        } else {
            tr.emit(json!({"ev": "batch_get", "keys": [], "res": "err", "out": []}));
        }
        for u in &self.users {
            let lab = AkdLabel(u.as_bytes().to_vec());
            let r = self.m.get_user_data(&lab).await;
            let res = res_of(&r);
            let out: Vec<Value> = r.map(|kd| kd.states.iter().map(|s| rec_to_json(&DbRecord::ValueState(s.clone()), &self.nodes)).collect()).unwrap_or_default();
            tr.emit(json!({"ev": "udata", "user": u, "res": res, "out": out}));
            for f in self.all_flags() {
                let r = self.m.get_user_state(&lab, flag_of(&f)).await;
                let res = res_of(&r);
                let out: Vec<Value> = r.map(|s| vec![rec_to_json(&DbRecord::ValueState(s), &self.nodes)]).unwrap_or_default();
                tr.emit(json!({"ev": "ustate", "user": u, "flag": f, "res": res, "out": out}));
            }
        }
        // bulk versions for every subset of users
        let n = self.users.len();
        for mask in 0..(1u32 << n) {
            let us: Vec<String> = (0..n).filter(|i| mask & (1 << i) != 0).map(|i| self.users[i].clone()).collect();
            let labs: Vec<AkdLabel> = us.iter().map(|u| AkdLabel(u.as_bytes().to_vec())).collect();
            for f in self.all_flags() {
                let r = self.m.get_user_state_versions(&labs, flag_of(&f)).await;
                let res = res_of(&r);
                let out: Vec<Value> = r
                    .map(|m| m.iter().map(|(l, (ver, val))| json!([String::from_utf8_lossy(&l.0), ver, val_name(&val.0)])).collect())
                    .unwrap_or_default();
                tr.emit(json!({"ev": "uversions", "users": us, "flag": f, "res": res, "out": out}));
            }
        }
    }

    /// order marker for steps that are not storage operations of the wrapped database (concurrent runs)
    fn mark(&self, kind: &'static str) {
        let mut c = self.db.ctl.lock().unwrap();
        if c.log_enabled {
            c.seq += 1;
            let seq = c.seq;
            c.log.push(crate::hookdb::OpRec { seq, pid: crate::hookdb::current_pid(), kind, detail: String::new(), failed: false });
        }
    }

    pub async fn apply(&self, st: &Value, tr: &mut Tracer) {
        if self.sleepy {
            tokio::time::sleep(Duration::from_millis(3)).await;
        }
        match st["op"].as_str().unwrap() {
            "set" => {
                let r = self.m.set(rec_to_real(&st["recs"][0])).await;
                tr.emit(json!({"ev": "set", "recs": st["recs"], "res": if r.is_ok() {"ok"} else {"err"}}));
            }
            "batch_set" => {
                let recs: Vec<DbRecord> = st["recs"].as_array().unwrap().iter().map(rec_to_real).collect();
                let r = self.m.batch_set(recs).await;
                tr.emit(json!({"ev": "set", "recs": st["recs"], "res": if r.is_ok() {"ok"} else {"err"}}));
            }
            "begin" => {
                let b = self.m.begin_transaction();
                tr.emit(json!({"ev": "begin", "res": b}));
            }
            "commit" => {
                self.db.take_captured();
                let r = self.m.commit_transaction().await;
                let batches = self.db.take_captured();
                let batch: Vec<Value> = batches.last().map(|b| b.iter().map(|r| rec_to_json(r, &self.nodes)).collect()).unwrap_or_default();
                tr.emit(json!({"ev": "commit", "res": if r.is_ok() {"ok"} else {"err"}, "batch": batch, "wrote": !batches.is_empty()}));
            }
            "rollback" => {
                let r = self.m.rollback_transaction();
                tr.emit(json!({"ev": "rollback", "res": if r.is_ok() {"ok"} else {"err"}}));
            }
            "tombstone" => {
                let u = st["user"].as_str().unwrap();
                let r = self.m.tombstone_value_states(&AkdLabel(u.as_bytes().to_vec()), st["epoch"].as_u64().unwrap()).await;
                tr.emit(json!({"ev": "tombstone", "user": u, "epoch": st["epoch"], "res": if r.is_ok() {"ok"} else {"err"}}));
            }
            "ext_set" => {
                // another instance writes to the same database (bypassing this manager and its cache)
                use akd::storage::Database;
                let recs: Vec<DbRecord> = st["recs"].as_array().unwrap().iter().map(rec_to_real).collect();
                let _ = self.db.inner.batch_set(recs, akd::storage::DbSetState::General).await;
                self.mark("ext_set");
                tr.emit(json!({"ev": "ext_set", "recs": st["recs"]}));
            }
            "reject_next" => {
                self.db.ctl.lock().unwrap().reject_next_write = true;
                tr.emit(json!({"ev": "reject_next"}));
            }
            "flush" => {
                self.m.flush_cache().await;
                self.mark("flush");
                tr.emit(json!({"ev": "flush"}));
            }
            "get" => {
                let (out, res) = self.get_key(&st["key"], false).await;
                tr.emit(json!({"ev": "get", "key": st["key"], "res": res, "out": out}));
            }
            "clean" => {
                if st["on"].as_bool().unwrap() {
                    self.m.enable_cache_cleaning()
                } else {
                    self.m.disable_cache_cleaning()
                }
                tr.emit(json!({"ev": "clean", "on": st["on"]}));
            }
            "sleep" => {
                tokio::time::sleep(Duration::from_millis(4)).await;
                tr.emit(json!({"ev": "sleep"}));
            }
            other => panic!("unknown storage op {other}"),
        }
    }
}

/// behaviour: {"cache":"none"|"default"|"short"|"tiny"|"tight","users":[..],"epochs":[..],"versions":[..],"nodes":[..],"steps":[...],"sweep":"end"|"every"}
pub async fn run_storage(b: &Value, tr: &mut Tracer) {
    let db = HookDb::new();
    db.ctl.lock().unwrap().spy_commit = true;
    let cache = b["cache"].as_str().unwrap_or("none");
    let m = match cache {
        "none" => StorageManager::new_no_cache(db.clone()),
        "default" => StorageManager::new(db.clone(), None, None, None),
        "short" => StorageManager::new(db.clone(), Some(Duration::from_millis(2)), None, Some(Duration::from_millis(2))),
        "tiny" => StorageManager::new(db.clone(), Some(Duration::from_millis(40)), Some(300), Some(Duration::from_millis(2))),
        // "tight<N>": memory limit of N bytes, nothing expires and the cleaner does not run in the meantime
        t if t.starts_with("tight") => StorageManager::new(db.clone(), None, Some(t[5..].parse().unwrap_or(300)), None),
        other => panic!("bad cache {other}"),
    };
    let strs = |k: &str| -> Vec<String> { b[k].as_array().unwrap().iter().map(|x| x.as_str().unwrap().to_string()).collect() };
    let nums = |k: &str| -> Vec<u64> { b[k].as_array().unwrap().iter().map(|x| x.as_u64().unwrap()).collect() };
    let ctx = StorCtx { db, m, users: strs("users"), epochs: nums("epochs"), versions: nums("versions"), nodes: strs("nodes"), sleepy: cache == "short" || cache == "tiny" };
    tr.emit(json!({"ev": "reset", "id": b["id"], "cache": cache}));
    let every = b["sweep"].as_str().unwrap_or("end") == "every";
    let steps = b["steps"].as_array().unwrap();
    for (i, st) in steps.iter().enumerate() {
        ctx.apply(st, tr).await;
        if every || i + 1 == steps.len() {
            ctx.sweep(tr).await;
        }
    }
}

/// Concurrent tasks on clones of one manager, gate-scheduled at the ISSUE and the COMPLETION of every
/// storage operation (C16: a cache fill racing with a write). Recorded: the writes in the order they
/// reached the database, then the sweep at quiescence.
pub async fn run_storage_conc(b: &Value, tr: &mut Tracer) {
    use crate::hookdb::PID;
    let db = HookDb::new();
    let cache = b["cache"].as_str().unwrap_or("default");
    let m = match cache {
        "none" => StorageManager::new_no_cache(db.clone()),
        "short" => StorageManager::new(db.clone(), Some(Duration::from_millis(2)), None, Some(Duration::from_millis(2))),
        _ => StorageManager::new(db.clone(), None, None, None),
    };
    let strs = |k: &str| -> Vec<String> { b[k].as_array().unwrap().iter().map(|x| x.as_str().unwrap().to_string()).collect() };
    let nums = |k: &str| -> Vec<u64> { b[k].as_array().unwrap().iter().map(|x| x.as_u64().unwrap()).collect() };
    let ctx = StorCtx { db: db.clone(), m: m.clone(), users: strs("users"), epochs: nums("epochs"), versions: nums("versions"), nodes: strs("nodes"), sleepy: false };
    tr.emit(json!({"ev": "reset", "id": b["id"], "cache": cache}));
    for st in b["setup"].as_array().unwrap() {
        ctx.apply(st, tr).await;
    }
    db.set_log(true);
    {
        let mut c = db.ctl.lock().unwrap();
        // "mt": tasks race freely on a multi-thread runtime (no gate); otherwise every operation is gated
        c.gate_enabled = !b["mt"].as_bool().unwrap_or(false);
        c.gate_post = b["post"].as_bool().unwrap_or(true);
    }
    let tasks = b["tasks"].as_array().unwrap().clone();
    let mut handles = std::collections::HashMap::new();
    for t in tasks.iter() {
        let pid = t["pid"].as_u64().unwrap() as u32;
        let ops = t["ops"].as_array().unwrap().clone();
        let tctx = StorCtx { db: db.clone(), m: m.clone(), users: ctx.users.clone(), epochs: ctx.epochs.clone(), versions: ctx.versions.clone(), nodes: ctx.nodes.clone(), sleepy: false };
        let start_ctl = db.ctl.clone();
        let start_gate = b["start_gate"].as_bool().unwrap_or(false);
        handles.insert(pid, tokio::spawn(PID.scope(pid, async move {
            let mut scratch = Tracer::new();
            if start_gate {
                // the task begins at its first grant (its first step need not be a storage operation)
                crate::hookdb::gate_wait(&start_ctl, pid, "start", String::new()).await;
            }
            for op in ops.iter() {
                tctx.apply(op, &mut scratch).await;
            }
            scratch
        })));
    }
    let schedule: Vec<u32> = b["schedule"].as_array().unwrap().iter().map(|x| x.as_u64().unwrap() as u32).collect();
    for pid in schedule.iter() {
        let h = match handles.get(pid) {
            Some(h) => h,
            None => continue,
        };
        let mut waited = 0;
        loop {
            if h.is_finished() {
                break;
            }
            if db.ctl.lock().unwrap().waiting.contains_key(pid) {
                db.ctl.lock().unwrap().grants.push_back(*pid);
                let mut k = 0;
                loop {
                    tokio::task::yield_now().await;
                    let (consumed, at_next) = {
                        let c = db.ctl.lock().unwrap();
                        (!c.grants.contains(pid), c.waiting.contains_key(pid))
                    };
                    if h.is_finished() || (consumed && at_next) || (consumed && k > 200) || k > 5000 {
                        break;
                    }
                    k += 1;
                }
                break;
            }
            tokio::task::yield_now().await;
            waited += 1;
            if waited > 300 {
                break;
            }
        }
    }
    db.ctl.lock().unwrap().gate_enabled = false;
    let mut task_events: std::collections::HashMap<u32, Vec<Value>> = std::collections::HashMap::new();
    for (pid, h) in handles.into_iter() {
        if let Ok(sc) = h.await {
            task_events.insert(pid, sc.buf.iter().map(|l| serde_json::from_str(l).unwrap()).collect());
        }
    }
    // writes in the order they reached the database
    let log = db.take_log();
    db.set_log(false);
    let mut cursor: std::collections::HashMap<u32, usize> = std::collections::HashMap::new();
    for o in log.iter().filter(|o| matches!(o.kind, "set" | "batch_set" | "ext_set" | "flush")) {
        let evs = match task_events.get(&o.pid) {
            Some(e) => e,
            None => continue,
        };
        let want = match o.kind {
            "ext_set" => "ext_set",
            "flush" => "flush",
            _ => "set",
        };
        let c = cursor.entry(o.pid).or_insert(0);
        while *c < evs.len() && evs[*c]["ev"] != want {
            *c += 1;
        }
        if *c < evs.len() {
            tr.emit(evs[*c].clone());
            *c += 1;
        }
    }
    tr.emit(json!({"ev": "sleep"}));
    ctx.sweep(tr).await;
}

pub fn main_storage(args: &[String]) {
    let input = arg_val(args, "--in").expect("--in");
    let out = arg_val(args, "--out").expect("--out");
    let threads: usize = arg_val(args, "--threads").map(|s| s.parse().unwrap()).unwrap_or(8);
    let behaviours = read_ndjson(&input);
    let (n, total) = crate::dirdrv::run_parallel(behaviours, &out, threads, |b| async move {
        if b["tasks"].is_array() && b["mt"].as_bool().unwrap_or(false) {
            return tokio::task::spawn_blocking(move || {
                let rt = tokio::runtime::Builder::new_multi_thread().worker_threads(4).enable_all().build().unwrap();
                rt.block_on(async move {
                    let mut tr = Tracer::new();
                    run_storage_conc(&b, &mut tr).await;
                    tr
                })
            })
            .await
            .unwrap();
        }
        let mut tr = Tracer::new();
        if b["tasks"].is_array() {
            run_storage_conc(&b, &mut tr).await;
        } else {
            run_storage(&b, &mut tr).await;
        }
        tr
    });
    println!("{}", json!({"behaviours": n, "events": total}));
}
