CONSTANTS
  D = 3
  MaxEpoch = 1
  MaxLeaves = 3
  Export = FALSE
  MaxU = 3
  MaxI = 2
  PrevEpochChecked = TRUE
  ChildPrefixChecked = TRUE
  PrefixFreeChecked = FALSE
  TopLabelChecked = TRUE
INIT Init
NEXT Next
INVARIANTS ExportState AuditSound AuditDupRejected
CHECK_DEADLOCK FALSE
