"""Directory-level properties decided with AkdDirectory.tla / TraceDirectory.tla:
C01 (root hash = function of history), C02 (lookup), C03 (history), C04 (audit), C20 (tombstones),
and the configuration matrix C14 / wire path C19(i) which replay the same behaviours."""
import json, os, random
from vlib import *

MC_UNIVERSE = {
    "MCDirectory_quick.cfg": (["a", "b"], ["x", "y"]),
    "MCDirectory_empty.cfg": (["a", "b"], ["x", "e"]),
    "MCDirectory_thorough.cfg": (["a", "b", "c"], ["x", "y"]),
    "MCDirectory_deep.cfg": (["a", "b", "c"], ["x", "y", "z"]),
    "MCDirectory_other.cfg": (["a", "b"], ["x", "y"]),
}
# replay caps per configuration in the quick tier (the model itself is always checked exhaustively)
QUICK_CAPS = {"MCDirectory_other.cfg": 2500}

DEFAULT_CELL = {"par": "disabled", "cache": "none", "reopen": "same", "wire": False}

def export_behaviours(chk, cfgs, simulate=None):
    """Run the bounded model(s); return list of (labels, values, steps)."""
    out = []
    for cfg in cfgs:
        sim = simulate if cfg == "MCDirectory_deep.cfg" else None
        res = run_tlc_mc("MCDirectory", cfg, chk.wd, workers=4 if not sim else 1, timeout=1200, simulate=sim)
        if res["violation"]:
            chk.violation(f"TLC: specification-level violation in {cfg}: {res['violation'][:300]}", {"tlc_output": res["out"]})
        chk.add_mc(res)
        labels, values = MC_UNIVERSE[cfg]
        reps = [json.loads(x) for x in res["export"].get("REPLAY", [])]
        if sim:
            # keep only maximal walks: a replay whose steps are a strict prefix of the next one is dropped
            keep = []
            for i, r in enumerate(reps):
                steps = r["path"] + [r["act"]]
                if i + 1 < len(reps):
                    nsteps = reps[i + 1]["path"] + [reps[i + 1]["act"]]
                    if len(nsteps) > len(steps) and nsteps[:len(steps)] == steps:
                        continue
                keep.append(r)
            reps = keep
        cap = int(os.environ.get("VERIF_DIR_CAP", "15000"))
        if chk.tier == "quick" and cfg in QUICK_CAPS:
            cap = QUICK_CAPS[cfg]
        if len(reps) > cap:
            # the model itself is checked exhaustively by TLC; only the replay on the real code is sampled
            chk.cov["notes"].append(f"{cfg}: {len(reps)} transitions exported, seeded sample of {cap} replayed on the implementation")
            reps = random.Random(chk.seed).sample(reps, cap)
        for r in reps:
            out.append((labels, values, r["path"] + [r["act"]], bool(sim)))
        log(f"[mc] {cfg}: {res['distinct']} distinct states, {res['generated']} transitions, {len(reps)} behaviours exported")
    return out

def with_stutters(exported, seed, n):
    """TLC visits a state once, so an exported path never continues THROUGH a step that leaves the specification's state
    unchanged (a rejected duplicate batch, a re-submission of current values, an empty batch): such steps only ever come
    last. An implementation may keep hidden state there. For a seeded sample of behaviours, one such step is inserted at a
    random position before the last step; the trace specification validates it like any other (err / noop, nothing changes)."""
    rnd = random.Random(seed * 31 + 5)
    flat = [x for x in exported if not x[3] and len(x[2]) >= 1]
    out = []
    for (labels, values, steps, deep) in rnd.sample(flat, min(n, len(flat))):
        pos = rnd.randint(0, len(steps) - 1)
        cur = {}
        for st in steps[:pos]:
            if st["op"] == "publish":
                labs = [p[0] for p in st["batch"]]
                if len(set(labs)) == len(labs):
                    for l, v in st["batch"]:
                        cur[l] = v
        kind = rnd.randint(0, 2)
        if kind == 0 or not cur:
            extra = {"op": "publish", "batch": [[labels[0], values[0]], [labels[0], values[-1]]]}     # repeated label: rejected
        elif kind == 1:
            extra = {"op": "publish", "batch": [[l, v] for l, v in sorted(cur.items())]}                # re-submission: no-op
        else:
            extra = {"op": "publish", "batch": []}                                                       # empty batch: no-op
        out.append((labels, values, steps[:pos] + [extra] + steps[pos:], deep))
    return out

def make_behaviours(chk, exported, kinds, cfg_policy="alt", cells=None, conc_variants=(0, 1, 2, None), stutters=0):
    """Turn exported (path, act) pairs into harness behaviours."""
    cells = cells or [DEFAULT_CELL]
    bs = []
    i = 0
    if stutters:
        exported = exported + with_stutters(exported, chk.seed, stutters)
    for (labels, values, steps, deep) in exported:
        cfgs = ["wa", "exp"] if cfg_policy == "both" else [["wa", "exp"][i % 2]]
        for c in cfgs:
            for cell in cells:
                cv = conc_variants[i % len(conc_variants)]
                if cv is None:
                    cv = 3 + (chk.seed % 1000)
                # publishes of labels outside the modelled set: 1-3 labels, two groups (a repeated group is an update)
                steps2 = [dict(st, count=1 + k % 3, tag=k % 2) if st.get("op") == "publish_other" else st for k, st in enumerate(steps)]
                bs.append({"id": len(bs) + 1, "cfg": c, "conc": cv, "cell": cell, "labels": labels, "values": values,
                           "kinds": kinds, "sweep": "every" if deep else "end", "steps": steps2})
        i += 1
    return bs

def run_dir_harness(chk, behaviours, name="dir", plain=False):
    binp = build_harness(plain=plain)
    inp = f"{chk.wd}/{name}_behaviours.ndjson"
    with open(inp, "w") as f:
        for b in behaviours:
            f.write(json.dumps(b) + "\n")
    outd = f"{chk.wd}/{name}_traces"
    rc, out, err = sh(f"{binp} dir --in {inp} --out {outd} --threads {min(NCPU, 16)}", timeout=3000)
    if rc != 0:
        raise ToolError(f"harness dir failed rc={rc}: {err[-2000:]}")
    info = json.loads(out.strip().splitlines()[-1])
    chk.cov["evaluations"] += info["behaviours"]
    chk.cov.setdefault("events", 0)
    chk.cov["events"] += info["events"]
    return sorted(glob.glob(f"{outd}/trace_*.ndjson"))

def scan_behaviours(traces):
    """Yield lists of events per behaviour."""
    for t in traces:
        cur = None
        with open(t) as f:
            for line in f:
                ev = json.loads(line)
                if ev["ev"] == "reset":
                    if cur is not None:
                        yield cur
                    cur = [ev]
                elif cur is not None:
                    cur.append(ev)
        if cur is not None:
            yield cur

def count_nontrivial(chk, traces, pred, nsamples=3):
    seen = set()
    for evs in scan_behaviours(traces):
        if pred(evs):
            key = json.dumps([e for e in evs if e["ev"] in ("publish", "tombstone")][-4:], sort_keys=True) + evs[0].get("cfg", "")
            if key not in seen:
                seen.add(key)
                if len(chk.cov["samples"]) < nsamples:
                    chk.cov["samples"].append(evs[:12])
    chk.cov["distinct_nontrivial"] += len(seen)

def long_histories(kinds):
    """Hand-made behaviours beyond the bounded models (validated by the same trace specification): a 9-epoch history that
    mixes inserts, updates, re-submissions and publishes of other labels, observed after every step; and a SCALE history in
    which 1,100 other labels are registered and then all updated (more than 2,048 elements in one append-only step)."""
    labels, values = ["a", "b", "c"], ["x", "y", "z"]
    long9 = [{"op": "publish", "batch": [["a", "x"]]}, {"op": "publish", "batch": [["b", "x"], ["a", "y"]]}, {"op": "publish_other", "count": 2, "tag": 0},
             {"op": "publish", "batch": [["c", "z"]]}, {"op": "publish", "batch": [["a", "y"], ["b", "y"]]}, {"op": "publish_other", "count": 2, "tag": 0},
             {"op": "publish", "batch": [["a", "z"], ["c", "x"]]}, {"op": "publish_other", "count": 3, "tag": 1}, {"op": "publish", "batch": [["b", "z"]]}]
    scale = [{"op": "publish", "batch": [["a", "x"]]}, {"op": "publish_other", "count": 1100, "tag": 7}, {"op": "publish", "batch": [["a", "y"], ["b", "x"]]},
             {"op": "publish_other", "count": 1100, "tag": 7}]
    out = []
    for c in ("wa", "exp"):
        out.append({"cfg": c, "conc": 0, "cell": dict(DEFAULT_CELL), "labels": labels, "values": values, "kinds": kinds, "sweep": "every", "steps": long9})
        out.append({"cfg": c, "conc": 0, "cell": dict(DEFAULT_CELL, cache="default"), "labels": labels, "values": values, "kinds": kinds, "sweep": "end", "steps": scale})
    return out

def dir_check(pid, kinds, nontrivial, rule, cfg_policy="alt", extra_quick_cfgs=(), thorough_cfgs=None, assumptions=(), with_long=False):
    chk = Check(pid, "model_checking")
    cfgs = ["MCDirectory_quick.cfg", "MCDirectory_empty.cfg", "MCDirectory_other.cfg"] + [c for c in extra_quick_cfgs if c != "MCDirectory_empty.cfg"]
    sim = None
    if chk.tier == "thorough":
        cfgs = thorough_cfgs or ["MCDirectory_quick.cfg", "MCDirectory_empty.cfg", "MCDirectory_other.cfg", "MCDirectory_thorough.cfg", "MCDirectory_deep.cfg"]
        sim = f"num=60 -depth 24 -seed {chk.seed}"
    exported = export_behaviours(chk, cfgs, simulate=sim)
    bs = make_behaviours(chk, exported, kinds, cfg_policy="both" if chk.tier == "thorough" else cfg_policy, stutters=1500 if chk.tier == "quick" else 6000)
    if with_long:
        for b in long_histories(kinds):
            bs.append(dict(b, id=len(bs) + 1))
    traces = run_dir_harness(chk, bs)
    results = validate_traces("TraceDirectory", "TraceDirectory.cfg", traces, chk.wd, chunk=8000 if chk.tier == "thorough" else None)
    chk.handle_validation(results)
    count_nontrivial(chk, traces, nontrivial)
    chk.cov["rule"] = rule
    chk.cov["exhaustive"] = True
    chk.assumptions += ["hash collision resistance and VRF uniqueness (cryptography is symbolic in the specification)",
                        "bounded model: constants of the MCDirectory_*.cfg files named in checker_cmd",
                        "storage is akd's in-memory database behind the harness's HookDb wrapper"] + list(assumptions)
    return chk.finish()

def last_publish(evs):
    ps = [e for e in evs if e["ev"] == "publish"]
    return ps[-1] if ps else None

def c01():
    return dir_check("C01", ["epoch_hash"],
        lambda evs: any(e["ev"] == "publish" and e["res"] == "ok" and e["epoch"] >= 2 for e in evs),
        "every (state, action) transition of the bounded AkdDirectory model is replayed on a real Directory under both "
        "configurations; per publish TLC checks outcome, epoch, 'digest = reference hash of the real leaves' and 'real leaves = "
        "Leaves(state)', plus digest = function of committed history across replays (memo). Non-trivial = distinct behaviours "
        "with an effective publish at epoch >= 2 (updates / stale leaves / decompression exist).",
        cfg_policy="both", extra_quick_cfgs=["MCDirectory_empty.cfg"], with_long=True,
        assumptions=["the reference hash formulas in harness/src/refhash.rs are an independent transcription of akd_core/src/lib.rs"])

def c02():
    return dir_check("C02", ["lookup"],
        lambda evs: sum(1 for e in evs if e["ev"] == "lookup" and e["res"] == "ok" and e["out"][1] >= 2) >= 1,
        "after the last step of every replayed behaviour: lookup of every label of the universe, of a never-published label, "
        "and batch lookups; each proof verified by akd's lookup_verify under the real public key; TLC requires the verified "
        "(value, version, epoch) = LookupOut(state) and the (epoch, root) pair = the published one. Non-trivial = distinct "
        "behaviours with a verified lookup of a version >= 2.")

def c03():
    return dir_check("C03", ["history"],
        lambda evs: sum(1 for e in evs if e["ev"] == "history" and e["res"] == "ok" and len(e["out"]) >= 2) >= 1,
        "after the last step of every replayed behaviour: key_history for every label with Complete and MostRecent(1..total+1), "
        "verified by key_history_verify with the same parameter (both verification modes); TLC requires the verified list = "
        "HistoryOut(state, parameter). Non-trivial = distinct behaviours with a verified history of >= 2 versions.", with_long=True)

def c04():
    return dir_check("C04", ["audit"],
        lambda evs: any(e["ev"] == "audit" and e["res"] == "ok" and e["e"] < max([p["epoch"] for p in evs if p["ev"] == "publish"] + [0]) for e in evs),
        "after the last step of every replayed behaviour: audit(s, e) for all 0 <= s < e <= epoch verified by audit_verify "
        "against the digests the publishes returned, plus refused ranges (s >= e, e > epoch); TLC requires ok exactly when "
        "AuditDefined and the hash chain = the published roots. Non-trivial = distinct behaviours with an accepted audit of a "
        "range ending before the latest epoch (pruning by last_epoch / min_descendant_epoch matters).", with_long=True)

def c20():
    return dir_check("C20", ["epoch_hash", "lookup", "history", "audit"],
        lambda evs: any(e["ev"] == "tombstone" for e in evs) and any(e["ev"] == "history" and e["res"] == "rejected" for e in evs),
        "behaviours containing Tombstone(label, cut) steps (all cut-offs before the label's latest update, with further "
        "publishes after them) are replayed through StorageManager::tombstone_value_states; the full sweep (epoch hash, "
        "lookups, histories in both verification modes and all parameters, all audits) is validated by TLC: Leaves and roots "
        "unchanged, AllowMissingValues reports empty values for tombstoned versions, Default rejects exactly the histories "
        "that include one. Non-trivial = distinct behaviours with a tombstone step and a default-mode rejection.")

def c11():
    chk = Check("C11", "model_checking")
    # record level: every subset of every commit's write set leaves the previous epoch's view intact (TLC, AkdTrie)
    res = run_tlc_mc("MCTrie", "MCTrie_crash.cfg", chk.wd, workers=8, timeout=1200, heap="8g")
    if res["violation"]:
        chk.violation(f"TLC: CrashSubsets / OldViewIntact violated in the trie model: {res['violation'][:300]}", {"tlc_output": res["out"]})
    chk.add_mc(res)
    cfgs = ["MCDirectory_quick.cfg"]
    sim = None
    if chk.tier == "thorough":
        cfgs += ["MCDirectory_thorough.cfg", "MCDirectory_deep.cfg"]
        sim = f"num=40 -depth 16 -seed {chk.seed}"
    exported = export_behaviours(chk, cfgs, simulate=sim)
    # the last step must be a publish: it is executed with the commit batch captured
    exported = [x for x in exported if x[2] and x[2][-1]["op"] == "publish"]
    rnd = random.Random(chk.seed)
    if chk.tier == "quick" and len(exported) > 2500:
        exported = rnd.sample(exported, 2500)
    bs = make_behaviours(chk, exported, [], cfg_policy="alt")
    for b in bs:
        b["sweep"] = "end"
        b["seed"] = chk.seed
        b["steps"] = b["steps"][:-1] + [dict(b["steps"][-1], op="publish_crash")]
    traces = run_dir_harness(chk, bs)
    results = validate_traces("TraceDirectory", "TraceDirectory.cfg", traces, chk.wd)
    chk.handle_validation(results)
    ncrash = 0
    seen = set()
    for evs in scan_behaviours(traces):
        pts = [e for e in evs if e["ev"] == "crash"]
        ncrash += len(pts)
        if any(0 < e["applied"] for e in pts):
            seen.add(json.dumps([e for e in evs if e["ev"] == "publish"], sort_keys=True) + evs[0]["cfg"])
            if len(chk.cov["samples"]) < 2:
                chk.cov["samples"].append([e for e in evs if e["ev"] in ("reset", "publish", "crash")][:14])
    chk.cov["crash_points_observed"] = ncrash
    chk.cov["distinct_nontrivial"] = len(seen)
    chk.cov["exhaustive"] = False
    chk.cov["rule"] = ("TLC proves on the trie model that EVERY subset of every commit's record writes (epoch record excluded) leaves the view of "
        "the previous epoch identical, and that the previous epoch stays readable from the two-version records after the commit. On the real code the "
        "last publish of every replayed behaviour runs with its commit batch captured; for every prefix of the batch and 6 seeded random subsets a deep "
        "copy of the database with exactly those records applied is opened through a fresh ReadOnlyDirectory and the full sweep (epoch hash, lookups, "
        "histories with all parameters, all audits) is validated by TLC against the state BEFORE the publish; then the whole batch is applied and the "
        "sweep must show the new epoch. Non-trivial = distinct behaviours with at least one crash point where some but not all records were written.")
    chk.assumptions += ["record-level atomicity of the database (a record is written completely or not at all)",
                        "crash subsets beyond prefixes are sampled (6 per commit), exhaustive only in the TLC trie model"]
    return chk.finish()

QUICK_CELLS = [
    ("disabled", "none", "same", False), ("s1", "none", "same", True), ("s2", "default", "same", False),
    ("s3", "none", "recreate", False), ("s8", "default", "fresh_mgr", False), ("s32", "none", "readonly", False),
    ("avail", "default", "same", True), ("disabled", "ms1", "recreate", False), ("s2", "short", "same", False),
    ("disabled", "tiny", "readonly", False), ("avail", "short", "fresh_mgr", False), ("s2", "tiny", "recreate", False), ("disabled", "tight", "same", False),
]

def merge_traces(a_files, b_files, outdir):
    os.makedirs(outdir, exist_ok=True)
    out = []
    for i, (a, b) in enumerate(zip(a_files, b_files)):
        p = f"{outdir}/trace_{i}.ndjson"
        with open(p, "w") as f:
            f.write(open(a).read())
            f.write(open(b).read())
        out.append(p)
    return out

def c14():
    import props_trie
    chk = Check("C14", "model_checking")
    # the model has no notion of configuration: outputs are a function of the history (AkdDirectory);
    # order / sub-batch independence of insertion is proved on the trie model
    res = run_tlc_mc("MCTrie", "MCTrie_order.cfg", chk.wd, workers=8, timeout=1500, heap="8g")
    if res["violation"]:
        chk.violation(f"TLC: OrderIndependence violated in the trie model: {res['violation'][:300]}", {"tlc_output": res["out"]})
    chk.add_mc(res)
    exported = export_behaviours(chk, ["MCDirectory_quick.cfg"])
    rnd = random.Random(chk.seed)
    # prefer behaviours that reach epoch 3 with updates
    rich = [x for x in exported if sum(1 for st in x[2] if st["op"] == "publish") >= 3]
    nh = 120 if chk.tier == "quick" else 300
    hist = rnd.sample(rich, min(nh, len(rich)))
    if chk.tier == "quick":
        cells = QUICK_CELLS
    else:
        cells = [(p, c, r, (i % 7 == 0)) for i, (p, c, r) in enumerate(
            (p, c, r) for p in ["disabled", "s1", "s2", "s3", "s8", "s32", "avail"]
            for c in ["none", "default", "ms1", "short", "tiny", "tight"] for r in ["same", "recreate", "fresh_mgr", "readonly"])]
    bs = []
    for h, (labels, values, steps, deep) in enumerate(hist):
        ccells = cells if chk.tier == "quick" else rnd.sample(cells, 24)
        for (par, cache, reopen, wire) in ccells:
            bs.append({"id": len(bs) + 1, "group": h, "cfg": ["wa", "exp"][h % 2], "conc": h % 3, "labels": labels, "values": values,
                       "cell": {"par": par, "cache": cache, "reopen": reopen, "wire": wire}, "kinds": [], "sweep": "end", "steps": steps})
        # the same history on a multi-thread runtime: the tasks akd spawns (parallel insertion, preload, parallel VRF) run truly in parallel
        for (par, cache) in (("s4", "none"), ("s2", "default")):
            bs.append({"id": len(bs) + 1, "group": h, "cfg": ["wa", "exp"][h % 2], "conc": h % 3, "labels": labels, "values": values, "mt": True,
                       "cell": {"par": par, "cache": cache, "reopen": "same", "wire": False}, "kinds": [], "sweep": "end", "steps": steps})
    # one long single-label history (70 versions: beyond every preload / batching bound in the code, crossing the
    # marker powers of two and the skip-list element 16 and 64), read back completely and in part
    for h2, cfgname in enumerate(["wa", "exp"]):
        steps = [{"op": "publish", "batch": [["a", ["x", "y"][i % 2]]] + ([["b", "x"]] if i == 0 else [])} for i in range(70)]
        for ci, (par, cache, reopen, wire) in enumerate([("disabled", "none", "same", False), ("s2", "default", "same", True)]):
            bs.append({"id": len(bs) + 1, "group": len(hist) + h2, "cfg": cfgname, "conc": 0, "labels": ["a", "b"], "values": ["x", "y"],
                       "cell": {"par": par, "cache": cache, "reopen": reopen, "wire": wire}, "kinds": ["history", "lookup", "epoch_hash"], "sweep": "end", "steps": steps})
    full = run_dir_harness(chk, bs, name="full")
    plain = run_dir_harness(chk, bs, name="plain", plain=True)
    merged = merge_traces(full, plain, f"{chk.wd}/merged")
    results = validate_traces("TraceDirectory", "TraceDirectory.cfg", merged, chk.wd)
    chk.handle_validation(results)
    chk.cov["cells"] = len(cells)
    chk.cov["histories"] = len(hist)
    chk.cov["feature_sets"] = ["default (greedy_lookup_preload, preload_history, parallel_vrf)", "none of them"]
    # trie level: permuted and split batches, parallel insertion, cached manager
    ttraces = props_trie.trie_stage(chk, "MCTrie_export4.cfg", ["tree", "audit"], pars=("disabled", "s2", "s8", "avail", "s1"), splits=True, name="order")
    chk.cov["distinct_nontrivial"] = len(hist) * len(cells if chk.tier == "quick" else range(24)) * 2
    chk.cov["samples"] = [{"history": hist[0][2], "cells": [list(c) for c in cells[:4]]}]
    chk.cov["exhaustive"] = False
    chk.cov["rule"] = ("the specification has no notion of configuration (every output is a function of the publish history), and TLC proves that "
        "inserting a batch split into any two sub-batches at one epoch yields the same tree. The same replayed histories run in every cell of "
        "{insertion/preload parallelism} x {cache none/default/1ms/2ms+sleeps/500-byte} x {same object, re-created directory, fresh manager, read-only "
        "wrapper} (12 representative cells in quick, 24 sampled of 140 per history in thorough), under both configurations and BOTH compile-feature "
        "sets (two harness binaries); all cells of one history are validated by one TLC run of TraceDirectory whose memo requires identical digests "
        "for identical histories. Trie level: every bounded tree is rebuilt from randomly split and permuted sub-batches with varying parallelism "
        "and validated against the one canonical table. distinct_nontrivial = histories x cells x feature sets replayed.")
    chk.assumptions += ["TimedCache silently replaces a lifetime or clean frequency <= 1 ms by its defaults, so the '1 ms' cell behaves like the default cell; 2 ms is the smallest lifetime that expires"]
    return chk.finish()

TABLE = {"C14": c14, "C01": c01, "C02": c02, "C03": c03, "C04": c04, "C11": c11, "C20": c20}
