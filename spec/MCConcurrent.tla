---- MODULE MCConcurrent ----
EXTENDS AkdConcurrent
KeysSeq == <<"root", "n1">>
====
