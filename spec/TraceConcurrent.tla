-------------------------- MODULE TraceConcurrent --------------------------
(* Op-level trace validation of concurrent runs of the real Directory       *)
(* against AkdConcurrent.  The events are recorded, in real order, on a      *)
(* single-threaded runtime whose interleaving the harness's gate dictates:   *)
(*   t_begin / t_set / t_drain / t_end / t_rollback                          *)
(*        akd's guarded trace hook at the linearization points of the        *)
(*        in-memory transaction (akd/src/storage/transaction.rs)             *)
(*   db_write   the database wrapper, right after a write took effect        *)
(*   ret        the driver, when a call returns                              *)
(* Every event must be explained by the corresponding EFFECT of AkdConcurrent*)
(* (Rollback, NodeWriteRec / LogNode, LogAzks, Drain, CommitToDb) applied to *)
(* the state the specification has reached, with the recorded data equal to  *)
(* what the specification computes: the record put into the log for a node   *)
(* is the shift of the version the specification holds, the epoch record is  *)
(* "committed epoch + 1" as read under the flag, the database write is       *)
(* exactly the drained log and happens while the flag is still held, only    *)
(* the holder rolls back, and a returned (epoch, root) pair is the one the   *)
(* call's own commit produced.  The C12 / C13 invariants of AkdConcurrent    *)
(* are evaluated in every state of the trace.  Reads are not events: the     *)
(* specification's view (log, then database; HasCache = FALSE) stands for    *)
(* whatever mixture of cache and database the real reads used, so a stale    *)
(* read shows up as a logged record the specification cannot explain.        *)
EXTENDS AkdConcurrent, Json, IOUtils, SequencesExt, FiniteSetsExt

VARIABLES pos, holder
Rec == ndJsonDeserialize(IOEnv.TRACE)
Ev == Rec[pos]
IsEv(e) == pos <= Len(Rec) /\ Ev.ev = e /\ pos' = pos + 1

(* cfg: Publishers = the small integers the driver uses as task ids; Keys <- OnlyRoot (the node keys of a run *)
(* are given by its cstate event, the database is a function over exactly those)                              *)
RootLabel == "0000000000000000/0"
OnlyRoot == <<RootLabel>>

tvars == <<cvars, pos, holder>>

(* a recorded node record as a specification record; contents are singleton sets of value ids *)
RecOf(r) == [latest |-> Ver(r.lep, {r.lh}), prev |-> IF r.pn THEN NoRec ELSE Ver(r.pep, {r.ph})]
AbsentRec == [latest |-> NoRec, prev |-> NoRec]
NodeRecs(recs) == { recs[j] : j \in { j \in 1..Len(recs) : recs[j].t = "node" } }
AzksRecs(recs) == { recs[j] : j \in { j \in 1..Len(recs) : recs[j].t = "azks" } }
AsFun(nrecs) == [k \in { r.k : r \in nrecs } |-> RecOf(CHOOSE r \in nrecs : r.k = k)]
DistinctKeys(nrecs) == Cardinality({ r.k : r \in nrecs }) = Cardinality(nrecs)

Blank ==
  /\ txnActive' = FALSE /\ txnLog' = EmptyLog
  /\ cache' = EmptyCache /\ rcache' = EmptyCache
  /\ pc' = [p \in Procs |-> "idle"]
  /\ loc' = [p \in Procs |-> [epoch |-> 0, i |-> 1, root |-> {}, recs |-> <<>>, azks |-> 0]]
  /\ faults' = 0
  /\ ret' = [p \in Procs |-> [st |-> "none", ep |-> 0, root |-> {}]]
  /\ holder' = 0 - 1

TInit ==
  /\ db = [azks |-> 0, nodes |-> <<>>]
  /\ txnActive = FALSE /\ txnLog = EmptyLog
  /\ cache = EmptyCache /\ rcache = EmptyCache
  /\ pc = [p \in Procs |-> "idle"]
  /\ loc = [p \in Procs |-> [epoch |-> 0, i |-> 1, root |-> {}, recs |-> <<>>, azks |-> 0]]
  /\ faults = 0
  /\ published = [e \in 0..1 |-> {}]
  /\ ret = [p \in Procs |-> [st |-> "none", ep |-> 0, root |-> {}]]
  /\ holder = 0 - 1
  /\ pos = 1 /\ TLCSet(1, 1)

TReset == IsEv("reset") /\ UNCHANGED <<cvars, holder>>

(* the committed state a run starts from *)
TCState ==
  /\ IsEv("cstate")
  /\ LET nrecs == NodeRecs(Ev.recs)
         given == AsFun(nrecs)
     IN /\ DistinctKeys(nrecs)
        /\ DOMAIN given \subseteq ToSet(Ev.keys)
        /\ db' = [azks |-> Ev.epoch, nodes |-> [k \in ToSet(Ev.keys) |-> IF k \in DOMAIN given THEN given[k] ELSE AbsentRec]]
        /\ \A a \in AzksRecs(Ev.recs) : a.ep = Ev.epoch
  /\ published' = [e \in 0..(Ev.epoch + 8) |-> IF e <= Ev.epoch THEN { {Ev.roots[e + 1]} } ELSE {}]
  /\ Blank

(* Transaction::begin_transaction: an atomic swap; the repaired publish then reads the epoch record under the flag *)
TBegin ==
  /\ IsEv("t_begin")
  /\ LET p == Ev.pid IN
       /\ Ev.ok = ~txnActive
       /\ IF Ev.ok
            THEN /\ txnActive' = TRUE /\ holder' = p
                 /\ loc' = [loc EXCEPT ![p].epoch = GetAzks]
                 /\ pc' = [pc EXCEPT ![p] = "p_node"]
            ELSE UNCHANGED <<txnActive, holder, loc, pc>>
  /\ UNCHANGED <<db, txnLog, cache, rcache, faults, published, ret>>

(* a node record put into the log: either the node as of the new epoch (the version as of the old epoch shifted *)
(* into `prev`), or a re-write of an untouched node at its own epoch with unchanged content                     *)
NodeSetOK(p, r) ==
  LET L == RecOf(r)
      e == L.latest.ep
  IN /\ L = NodeWriteRec(r.k, e, LAMBDA c : L.latest.c)
     /\ \/ e = loc[p].epoch + 1
        \/ e <= loc[p].epoch /\ GetNodeRec(r.k).latest = L.latest

TSet ==
  /\ IsEv("t_set")
  /\ LET p == Ev.pid
         nrecs == NodeRecs(Ev.recs)
         arecs == AzksRecs(Ev.recs)
     IN /\ txnActive /\ holder = p /\ pc[p] = "p_node"
        /\ DistinctKeys(nrecs)
        /\ \A r \in nrecs : NodeSetOK(p, r)
        /\ \A a \in arecs : a.ep = loc[p].epoch + 1
        /\ txnLog' = [azks |-> IF arecs = {} THEN txnLog.azks ELSE loc[p].epoch + 1,
                      nodes |-> AsFun(nrecs) @@ txnLog.nodes]
        /\ pc' = [pc EXCEPT ![p] = IF arecs = {} THEN "p_node" ELSE "p_drain"]
  /\ UNCHANGED <<db, txnActive, cache, rcache, loc, faults, published, ret, holder>>

(* Transaction::drain_transaction: exactly the log, and the flag stays set *)
TDrain ==
  /\ IsEv("t_drain")
  /\ LET p == Ev.pid
         nrecs == NodeRecs(Ev.recs)
     IN /\ txnActive /\ holder = p /\ pc[p] = "p_drain"
        /\ DistinctKeys(nrecs) /\ AsFun(nrecs) = txnLog.nodes
        /\ { a.ep : a \in AzksRecs(Ev.recs) } = { txnLog.azks }
        /\ Drain(p)
        /\ pc' = [pc EXCEPT ![p] = "p_db_write"]
  /\ UNCHANGED <<db, txnActive, cache, rcache, faults, published, ret, holder>>

(* the commit's database write: by the holder, while the flag is held, exactly the drained records *)
TDbWrite ==
  /\ IsEv("db_write")
  /\ LET p == Ev.pid
         nrecs == NodeRecs(Ev.recs)
     IN /\ txnActive /\ holder = p /\ pc[p] = "p_db_write"
        /\ DistinctKeys(nrecs) /\ AsFun(nrecs) = loc[p].recs
        /\ { a.ep : a \in AzksRecs(Ev.recs) } = { loc[p].azks }
        /\ IF Ev.ok
             THEN /\ CommitToDb(loc[p].recs, loc[p].azks)
                  /\ loc' = [loc EXCEPT ![p].root = IF RootKey \in DOMAIN loc[p].recs THEN loc[p].recs[RootKey].latest.c ELSE {}]
                  /\ pc' = [pc EXCEPT ![p] = "p_end"]
                  /\ UNCHANGED faults
             ELSE /\ faults' = faults + 1
                  /\ pc' = [pc EXCEPT ![p] = "p_end_failed"]
                  /\ UNCHANGED <<db, published, cache, loc>>
  /\ UNCHANGED <<txnActive, txnLog, rcache, ret, holder>>

(* Transaction::end_transaction: the flag is released by the holder, after its database write *)
TEnd ==
  /\ IsEv("t_end")
  /\ LET p == Ev.pid IN
       /\ txnActive /\ holder = p /\ pc[p] \in {"p_end", "p_end_failed"}
       /\ pc' = [pc EXCEPT ![p] = IF pc[p] = "p_end" THEN "p_ret" ELSE "p_ret_err"]
  /\ txnActive' = FALSE /\ holder' = 0 - 1
  /\ UNCHANGED <<db, txnLog, cache, rcache, loc, faults, published, ret>>

(* Transaction::rollback_transaction: only the holder's; refused exactly when no transaction is open *)
TRollback ==
  /\ IsEv("t_rollback")
  /\ LET p == Ev.pid IN
       IF Ev.ok
         THEN /\ txnActive /\ holder = p /\ pc[p] \in {"p_node", "p_drain"}
              /\ Rollback /\ holder' = 0 - 1
              /\ pc' = [pc EXCEPT ![p] = "p_ret_err"]
         ELSE /\ ~txnActive
              /\ UNCHANGED <<txnActive, txnLog, holder, pc>>
  /\ UNCHANGED <<db, cache, rcache, loc, faults, published, ret>>

IsPublished(e, root) == e \in DOMAIN published /\ published[e] = { {root} }

TRet ==
  /\ IsEv("ret")
  /\ LET p == Ev.pid IN
       /\ ret[p].st = "none"
       /\ CASE Ev.kind = "publish" /\ Ev.res = "ok" /\ pc[p] = "p_ret" ->
                 \* the call's own commit: its epoch and the root its commit wrote
                 /\ Ev.epoch = loc[p].azks /\ {Ev.root} = loc[p].root
                 /\ ret' = [ret EXCEPT ![p] = [st |-> "ok", ep |-> Ev.epoch, root |-> {Ev.root}]]
            [] Ev.kind = "publish" /\ Ev.res = "ok" /\ pc[p] # "p_ret" ->
                 \* a publish that changed nothing never took the flag and reports a published pair
                 /\ pc[p] = "idle" /\ IsPublished(Ev.epoch, Ev.root)
                 /\ ret' = [ret EXCEPT ![p] = [st |-> "answer", ep |-> Ev.epoch, root |-> {Ev.root}]]
            [] Ev.kind = "publish" /\ Ev.res # "ok" ->
                 /\ pc[p] \in {"idle", "p_ret_err"}
                 /\ ret' = [ret EXCEPT ![p] = [st |-> "err", ep |-> 0, root |-> {}]]
            [] Ev.kind \in {"lookup", "history", "epoch_hash"} /\ Ev.res = "ok" ->
                 /\ IsPublished(Ev.epoch, Ev.root)
                 /\ ret' = [ret EXCEPT ![p] = [st |-> "answer", ep |-> Ev.epoch, root |-> {Ev.root}]]
            [] OTHER -> ret' = [ret EXCEPT ![p] = [st |-> "err", ep |-> 0, root |-> {}]]
       /\ pc' = [pc EXCEPT ![p] = "done"]
  /\ UNCHANGED <<db, txnActive, txnLog, cache, rcache, loc, faults, published, holder>>

TQuiescent ==
  /\ IsEv("quiescent")
  /\ ~Ev.txn_open /\ ~txnActive /\ txnLog = EmptyLog
  /\ \A p \in Procs : pc[p] \in {"idle", "done"}
  /\ UNCHANGED <<cvars, holder>>

TNext == TReset \/ TCState \/ TBegin \/ TSet \/ TDrain \/ TDbWrite \/ TEnd \/ TRollback \/ TRet \/ TQuiescent

(* invariants of AkdConcurrent evaluated along the trace, plus: an answer stays THE published pair *)
AnswersStayPublished == \A p \in Procs : ret[p].st = "answer" => published[ret[p].ep] = { ret[p].root }
HolderConsistent == (holder # 0 - 1) = txnActive
TraceInv == EpochsDistinct /\ ReturnedPairsStayPublished /\ AnswersStayPublished /\ HolderConsistent

Track == TLCSet(1, IF pos > TLCGet(1) THEN pos ELSE TLCGet(1))
Accepted ==
  LET reached == TLCGet(1) IN
  IF reached = Len(Rec) + 1
    THEN PrintT(<<"TRACE-ACCEPTED", Len(Rec)>>)
    ELSE /\ PrintT(<<"TRACE-REJECTED", reached, ToJson(Rec[reached])>>)
         /\ FALSE
=============================================================================
