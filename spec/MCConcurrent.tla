---- MODULE MCConcurrent ----
(* Bounded instances of AkdConcurrent; optionally exports every complete interleaving (the sequence *)
(* of process ids, one entry per step) for replay through the harness's storage-operation gate.      *)
EXTENDS AkdConcurrent, Json
CONSTANT ExportSched
VARIABLE sched
KeysSeq == <<"root", "n1">>

PStep(p) == PReadEpoch(p) \/ PReadVersions(p) \/ PBegin(p) \/ PRecheck(p) \/ PNode(p)
            \/ PSetAzks(p) \/ PDrain(p) \/ PDbWrite(p) \/ PRootAfter(p) \/ PRet(p)
RStep(r) == RReadEpoch(r) \/ RNode(r)

MCInit == Init /\ sched = <<>>
MCNext == \/ \E p \in Publishers : PStep(p) /\ sched' = Append(sched, p)
          \/ \E r \in Readers : RStep(r) /\ sched' = Append(sched, r)
          \/ RPoll /\ sched' = Append(sched, "poll")
View == cvars
ExportAtEnd == (ExportSched /\ Quiescent) => PrintT(<<"SCHED", ToJson(sched)>>)
====
