//! Trie-level driver: builds real akd trees (Azks::batch_insert_nodes) over "stretched" model
//! labels, projects the real node records back to the model, generates honest proofs, plays the
//! adversarial prover of C05 / C09 with real node records, and records everything for TLC
//! (TraceTrie.tla validates the events against AkdTrie.tla).

use crate::common::*;
use crate::dirdrv::{as_of, project_tree, rl, HasRef};
use crate::hookdb::HookDb;
use crate::refhash::{self, RLeaf, RefCfg};
use akd::append_only_zks::{Azks, AzksParallelismConfig, AzksParallelismOption, InsertMode};
use akd::storage::manager::StorageManager;
use akd::storage::types::DbRecord;
use akd::tree_node::{TreeNode, TreeNodeType};
use akd::{
    AzksElement, AzksValue, Digest, Direction, MembershipProof, NodeLabel, NonMembershipProof,
    SiblingProof, SingleAppendOnlyProof,
};
use serde_json::{json, Value};
use std::collections::HashMap;

#[derive(Clone, Debug)]
pub struct Stretch {
    pub d: usize,
    pub pos: Vec<u32>,
    pub filler: [u8; 32],
}

fn get_bit(v: &[u8; 32], i: u32) -> u8 {
    (v[(i / 8) as usize] >> (7 - (i % 8))) & 1
}
fn set_bit(v: &mut [u8; 32], i: u32, b: u8) {
    let m = 1u8 << (7 - (i % 8));
    if b == 1 {
        v[(i / 8) as usize] |= m;
    } else {
        v[(i / 8) as usize] &= !m;
    }
}

impl Stretch {
    pub fn from_json(v: &Value) -> Stretch {
        let pos: Vec<u32> = v["pos"].as_array().unwrap().iter().map(|x| x.as_u64().unwrap() as u32).collect();
        let seed = v["filler"].as_u64().unwrap_or(0);
        let filler = match seed {
            0 => [0u8; 32],
            1 => [0xFFu8; 32],
            2 => [0xAAu8; 32],
            s => *blake3::hash(&s.to_be_bytes()).as_bytes(),
        };
        Stretch { d: pos.len(), pos, filler }
    }
    pub fn to_json(&self) -> Value {
        json!({"pos": self.pos, "filler": hex::encode(&self.filler[..4])})
    }
    /// model bit string (len k <= d) -> real label
    pub fn to_real(&self, bits: &[u8]) -> NodeLabel {
        let k = bits.len();
        let mut v = self.filler;
        for (i, b) in bits.iter().enumerate() {
            set_bit(&mut v, self.pos[i], *b);
        }
        let len: u32 = if k == self.d { 256 } else { self.pos[k] };
        for i in len..256 {
            set_bit(&mut v, i, 0);
        }
        NodeLabel::new(v, len)
    }
    /// real label -> model bit string; None when the label is not the image of a model label
    pub fn to_model(&self, l: &NodeLabel) -> Option<Vec<u8>> {
        let k = if l.label_len == 256 {
            self.d
        } else {
            self.pos.iter().position(|p| *p == l.label_len)?
        };
        let bits: Vec<u8> = (0..k).map(|i| get_bit(&l.label_val, self.pos[i])).collect();
        if self.to_real(&bits) == *l {
            Some(bits)
        } else {
            None
        }
    }
}

pub fn bits_of(v: &Value) -> Vec<u8> {
    v.as_array().unwrap().iter().map(|x| x.as_u64().unwrap() as u8).collect()
}

pub fn real_value(id: u64) -> AzksValue {
    let mut h = blake3::Hasher::new();
    h.update(b"akdv-leaf-value");
    h.update(&id.to_be_bytes());
    AzksValue(*h.finalize().as_bytes())
}

pub fn par_of(s: &str) -> AzksParallelismConfig {
    let opt = match s {
        "disabled" => AzksParallelismOption::Disabled,
        "avail" => AzksParallelismOption::AvailableOr(32),
        x if x.starts_with('s') => AzksParallelismOption::Static(x[1..].parse().unwrap()),
        other => panic!("bad par {other}"),
    };
    AzksParallelismConfig { insertion: opt, preload: opt }
}

pub struct RealTree<TC: HasRef> {
    pub db: HookDb,
    pub manager: StorageManager<HookDb>,
    pub azks: Azks,
    pub st: Stretch,
    /// (model bits, value id, epoch)
    pub leaves: Vec<(Vec<u8>, u64, u64)>,
    pub auditor_mode: bool,
    pub par: AzksParallelismConfig,
    _tc: std::marker::PhantomData<TC>,
}

impl<TC: HasRef> RealTree<TC> {
    pub async fn new(st: Stretch, auditor_mode: bool, par: AzksParallelismConfig, cached: bool) -> Self {
        let db = HookDb::new();
        let manager = if cached {
            StorageManager::new(db.clone(), None, None, None)
        } else {
            StorageManager::new_no_cache(db.clone())
        };
        let azks = Azks::new::<TC, _>(&manager).await.unwrap();
        RealTree { db, manager, azks, st, leaves: vec![], auditor_mode, par, _tc: std::marker::PhantomData }
    }

    fn mode(&self) -> InsertMode {
        if self.auditor_mode {
            InsertMode::Auditor
        } else {
            InsertMode::Directory
        }
    }

    /// insert a batch as the next epoch
    pub async fn insert(&mut self, batch: &[(Vec<u8>, u64)]) -> Result<(), String> {
        let elems: Vec<AzksElement> = batch
            .iter()
            .map(|(b, v)| AzksElement { label: self.st.to_real(b), value: real_value(*v) })
            .collect();
        self.azks
            .batch_insert_nodes::<TC, _>(&self.manager, elems, self.mode(), self.par)
            .await
            .map_err(|e| format!("{e}"))?;
        let ep = self.azks.latest_epoch;
        for (b, v) in batch {
            if !self.leaves.iter().any(|(x, _, _)| x == b) {
                self.leaves.push((b.clone(), *v, ep));
            }
        }
        Ok(())
    }

    /// insert a further sub-batch into the *current* epoch (as the auditor does by presetting latest_epoch)
    pub async fn insert_same_epoch(&mut self, batch: &[(Vec<u8>, u64)]) -> Result<(), String> {
        self.azks.latest_epoch -= 1;
        self.insert(batch).await
    }

    pub async fn build(assign: &Value, st: Stretch, auditor_mode: bool, par: AzksParallelismConfig, cached: bool) -> Result<Self, String> {
        let mut t = Self::new(st, auditor_mode, par, cached).await;
        let items: Vec<(Vec<u8>, u64, u64)> = assign
            .as_array()
            .unwrap()
            .iter()
            .map(|x| (bits_of(&x[0]), x[1].as_u64().unwrap(), x[2].as_u64().unwrap()))
            .collect();
        let maxep = items.iter().map(|x| x.2).max().unwrap_or(0);
        for e in 1..=maxep {
            let batch: Vec<(Vec<u8>, u64)> = items.iter().filter(|x| x.2 == e).map(|x| (x.0.clone(), x.1)).collect();
            t.insert(&batch).await?;
        }
        Ok(t)
    }

    fn rleaves_upto(&self, t: u64) -> Vec<RLeaf> {
        self.leaves
            .iter()
            .filter(|l| l.2 <= t)
            .map(|(b, v, e)| {
                let val = real_value(*v).0;
                RLeaf {
                    label: rl(&self.st.to_real(b)),
                    hashed: if self.auditor_mode { val } else { <TC::R as RefCfg>::leaf(&val, *e) },
                }
            })
            .collect()
    }

    pub fn ref_root(&self, t: u64) -> Digest {
        refhash::ref_root::<TC::R>(&self.rleaves_upto(t))
    }

    pub async fn nodes_at(&self, t: u64) -> Result<Vec<TreeNode>, String> {
        project_tree(&self.db.all_records().await, t)
    }

    pub fn lab_json(&self, l: &NodeLabel) -> Value {
        if *l == TC::empty_label() {
            return json!([3]);
        }
        match self.st.to_model(l) {
            Some(b) => json!(b),
            None => json!([9, l.label_len]),
        }
    }
    fn opt_lab_json(&self, l: &Option<NodeLabel>) -> Value {
        match l {
            None => json!([2]),
            Some(x) => self.lab_json(x),
        }
    }

    /// projected node table as of epoch t
    pub async fn view_json(&self, t: u64) -> Value {
        let nodes = match self.nodes_at(t).await {
            Ok(n) => n,
            Err(e) => return json!([{"label": [9], "type": e, "left": [2], "right": [2], "le": 0, "md": 0, "val": 0, "hash_ok": false}]),
        };
        let rleaves = self.rleaves_upto(t);
        let mut out = vec![];
        for n in nodes.iter() {
            let under: Vec<RLeaf> = rleaves
                .iter()
                .filter(|l| {
                    let p = rl(&n.label);
                    l.label.len >= p.len && l.label.prefix(p.len) == p
                })
                .cloned()
                .collect();
            let (ty, hash_ok, val) = match n.node_type {
                TreeNodeType::Leaf => {
                    let m = self.st.to_model(&n.label);
                    let found = self.leaves.iter().find(|(b, _, _)| Some(b) == m.as_ref());
                    match found {
                        Some((_, v, _)) => ("leaf", real_value(*v) == n.hash, *v),
                        None => ("leaf", false, 0),
                    }
                }
                TreeNodeType::Root => ("root", refhash::ref_root_val::<TC::R>(&under) == n.hash.0, 0),
                TreeNodeType::Interior => (
                    "interior",
                    refhash::ref_subtree::<TC::R>(&under).map(|(l, v)| l == rl(&n.label) && v == n.hash.0).unwrap_or(false),
                    0,
                ),
            };
            out.push(json!({"label": self.lab_json(&n.label), "type": ty, "left": self.opt_lab_json(&n.left_child),
                "right": self.opt_lab_json(&n.right_child), "le": n.last_epoch, "md": n.min_descendant_epoch,
                "val": val, "hash_ok": hash_ok}));
        }
        Value::Array(out)
    }

    pub fn assign_json(&self) -> Value {
        Value::Array(self.leaves.iter().map(|(b, v, e)| json!([b, v, e])).collect())
    }

    pub async fn root_hash(&self) -> Option<Digest> {
        self.azks.get_root_hash::<TC, _>(&self.manager).await.ok()
    }

    // ---------------------------------------------------------------- proofs

    pub fn elem_of(&self, n: &Option<TreeNode>) -> AzksElement {
        match n {
            None => AzksElement { label: TC::empty_label(), value: TC::empty_node_hash() },
            Some(n) => AzksElement {
                label: n.label,
                value: if n.node_type == TreeNodeType::Leaf {
                    AzksValue(TC::hash_leaf_with_commitment(n.hash, n.last_epoch).0)
                } else {
                    n.hash
                },
            },
        }
    }

    /// honest proofs for every leaf slot + adversarial candidate verdicts
    pub async fn proof_events(&self, tr: &mut Tracer, do_mem: bool, do_nonmem: bool) {
        let t = self.azks.latest_epoch;
        let root = match self.root_hash().await {
            Some(r) => r,
            None => {
                tr.emit(json!({"ev": "error", "what": "no root hash"}));
                return;
            }
        };
        let nodes = match self.nodes_at(t).await {
            Ok(n) => n,
            Err(e) => {
                tr.emit(json!({"ev": "error", "what": e}));
                return;
            }
        };
        let by_label: HashMap<NodeLabel, TreeNode> = nodes.iter().map(|n| (n.label, n.clone())).collect();
        let child = |n: &TreeNode, left: bool| -> Option<TreeNode> {
            let c = if left { n.left_child } else { n.right_child };
            c.and_then(|l| by_label.get(&l).cloned())
        };
        // honest membership path of every node (the prover's raw material)
        let mut mp: HashMap<NodeLabel, MembershipProof> = HashMap::new();
        for n in nodes.iter() {
            match self.azks.get_membership_proof::<TC, _>(&self.manager, n.label).await {
                Ok(p) => {
                    mp.insert(n.label, p);
                }
                Err(e) => {
                    tr.emit(json!({"ev": "error", "what": format!("membership proof generation failed: {e}")}));
                    return;
                }
            }
        }
        let labels: Vec<NodeLabel> = nodes.iter().map(|n| n.label).collect();
        let slots: Vec<Vec<u8>> = (0..(1u32 << self.st.d))
            .map(|i| (0..self.st.d).map(|b| ((i >> (self.st.d - 1 - b)) & 1) as u8).collect())
            .collect();

        if do_mem {
            // honest generator on every slot
            let mut honest = vec![];
            for q in slots.iter() {
                let ql = self.st.to_real(q);
                match self.azks.get_membership_proof::<TC, _>(&self.manager, ql).await {
                    Ok(p) => {
                        let ver = akd::client::verify_membership_for_tests_only::<TC>(root, &p).is_ok();
                        let leaf_hash_ok = self
                            .leaves
                            .iter()
                            .find(|(b, _, _)| b == q)
                            .map(|(_, v, e)| TC::hash_leaf_with_commitment(real_value(*v), *e).0 == p.hash_val.0)
                            .unwrap_or(false);
                        honest.push(json!([q, p.label == ql, ver, leaf_hash_ok]));
                    }
                    Err(_) => honest.push(json!([q, false, false, false])),
                }
            }
            // adversarial candidates
            let mut accepted = vec![];
            let mut tried = 0u64;
            for a in labels.iter() {
                let base = &mp[a];
                let k = base.sibling_proofs.len();
                let mut cands: Vec<(Value, MembershipProof)> = vec![(json!({"a": self.lab_json(a), "m": "none", "i": 0, "x": []}), base.clone())];
                for x in labels.iter() {
                    let xe = self.elem_of(&by_label.get(x).cloned());
                    let mut p = base.clone();
                    p.hash_val = xe.value;
                    cands.push((json!({"a": self.lab_json(a), "m": "hash", "i": 0, "x": self.lab_json(x)}), p));
                    for i in 0..k {
                        let mut p = base.clone();
                        p.sibling_proofs[i].siblings = [xe];
                        cands.push((json!({"a": self.lab_json(a), "m": "sib", "i": i + 1, "x": self.lab_json(x)}), p));
                    }
                    let mut p = base.clone();
                    p.label = *x;
                    cands.push((json!({"a": self.lab_json(a), "m": "label", "i": 0, "x": self.lab_json(x)}), p));
                }
                for i in 0..k {
                    let mut p = base.clone();
                    p.sibling_proofs[i].direction = p.sibling_proofs[i].direction.other();
                    cands.push((json!({"a": self.lab_json(a), "m": "dir", "i": i + 1, "x": []}), p));
                }
                for (d, p) in cands.into_iter() {
                    tried += 1;
                    if akd::client::verify_membership_for_tests_only::<TC>(root, &p).is_ok() {
                        accepted.push(d);
                    }
                }
            }
            tr.emit(json!({"ev": "mem", "honest": honest, "accepted": accepted, "tried": tried}));
        }

        if do_nonmem {
            for q in slots.iter() {
                let ql = self.st.to_real(q);
                let honest = match self.azks.get_non_membership_proof::<TC, _>(&self.manager, ql).await {
                    Ok(p) => akd::client::verify_nonmembership_for_tests_only::<TC>(root, &p).is_ok(),
                    Err(_) => false,
                };
                let mut accepted = vec![];
                let mut tried = 0u64;
                for a in labels.iter() {
                    let n = &by_label[a];
                    let base = NonMembershipProof {
                        label: ql,
                        longest_prefix: *a,
                        longest_prefix_children: [self.elem_of(&child(n, true)), self.elem_of(&child(n, false))],
                        longest_prefix_membership_proof: mp[a].clone(),
                    };
                    let k = base.longest_prefix_membership_proof.sibling_proofs.len();
                    let aj = self.lab_json(a);
                    let mut cands: Vec<(Value, NonMembershipProof)> = vec![];
                    cands.push((json!({"a": aj, "m": "none", "i": 0, "x": []}), base.clone()));
                    let mut p = base.clone();
                    p.longest_prefix_children = [base.longest_prefix_children[1], base.longest_prefix_children[0]];
                    cands.push((json!({"a": aj, "m": "swap", "i": 0, "x": []}), p));
                    for x in labels.iter() {
                        let xe = self.elem_of(&by_label.get(x).cloned());
                        let xj = self.lab_json(x);
                        for i in 0..2 {
                            let mut p = base.clone();
                            p.longest_prefix_children[i] = xe;
                            cands.push((json!({"a": aj, "m": "child", "i": i + 1, "x": xj}), p));
                        }
                        let mut p = base.clone();
                        p.longest_prefix_membership_proof.hash_val = xe.value;
                        cands.push((json!({"a": aj, "m": "hash", "i": 0, "x": xj}), p));
                        for i in 0..k {
                            let mut p = base.clone();
                            p.longest_prefix_membership_proof.sibling_proofs[i].siblings = [xe];
                            cands.push((json!({"a": aj, "m": "sib", "i": i + 1, "x": xj}), p));
                        }
                        let mut p = base.clone();
                        p.longest_prefix_membership_proof = mp[x].clone();
                        cands.push((json!({"a": aj, "m": "path", "i": 0, "x": xj}), p));
                        let mut p = base.clone();
                        p.longest_prefix = *x;
                        cands.push((json!({"a": aj, "m": "lp", "i": 0, "x": xj}), p));
                    }
                    for i in 0..k {
                        let mut p = base.clone();
                        let d = p.longest_prefix_membership_proof.sibling_proofs[i].direction;
                        p.longest_prefix_membership_proof.sibling_proofs[i].direction = d.other();
                        cands.push((json!({"a": aj, "m": "dir", "i": i + 1, "x": []}), p));
                    }
                    for (d, p) in cands.into_iter() {
                        tried += 1;
                        if akd::client::verify_nonmembership_for_tests_only::<TC>(root, &p).is_ok() {
                            accepted.push(d);
                        }
                    }
                }
                tr.emit(json!({"ev": "nonmem", "q": q, "honest": honest, "accepted": accepted, "tried": tried}));
            }
        }
    }

    fn elems_json(&self, v: &[AzksElement], with_val: bool) -> Value {
        Value::Array(
            v.iter()
                .map(|e| {
                    if with_val {
                        // inserted leaves carry their raw value: map back to the value id
                        let id = self
                            .leaves
                            .iter()
                            .find(|(_, vid, _)| real_value(*vid) == e.value)
                            .map(|x| x.1)
                            .unwrap_or(0);
                        json!([self.lab_json(&e.label), id])
                    } else {
                        json!(self.lab_json(&e.label))
                    }
                })
                .collect(),
        )
    }

    /// C04 at trie level: every single audit step generated on the latest tree
    pub async fn audit_events(&self, tr: &mut Tracer) {
        let latest = self.azks.latest_epoch;
        for i in 0..latest {
            match self.azks.get_append_only_proof::<TC, _>(&self.manager, i, i + 1, self.par).await {
                Err(e) => tr.emit(json!({"ev": "auditstep", "i": i, "res": "err", "what": format!("{e}"), "unchanged": [], "inserted": [], "accepted": false, "unchanged_hash_ok": false})),
                Ok(p) => {
                    let sp: &SingleAppendOnlyProof = &p.proofs[0];
                    let hs = self.ref_root(i);
                    let he = self.ref_root(i + 1);
                    let acc = akd::auditor::verify_consecutive_append_only::<TC>(sp, hs, he, i + 1).await.is_ok();
                    // every unchanged element must carry the reference value of that subtree as of epoch i
                    let rleaves = self.rleaves_upto(i);
                    let uh_ok = sp.unchanged_nodes.iter().all(|e| {
                        let p = rl(&e.label);
                        let under: Vec<RLeaf> = rleaves.iter().filter(|l| l.label.len >= p.len && l.label.prefix(p.len) == p).cloned().collect();
                        refhash::ref_subtree::<TC::R>(&under).map(|(l, v)| l == p && v == e.value.0).unwrap_or(false)
                    });
                    tr.emit(json!({"ev": "auditstep", "i": i, "res": "ok", "unchanged": self.elems_json(&sp.unchanged_nodes, false),
                        "inserted": self.elems_json(&sp.inserted, true), "accepted": acc, "unchanged_hash_ok": uh_ok,
                        "epochs_ok": p.epochs == vec![i] && p.proofs.len() == 1}));
                }
            }
        }
    }
}

/// Auditor-style rebuild (what verify_append_only_hash does): returns (root hash, labels of the leaf-typed nodes)
async fn auditor_rebuild<TC: HasRef>(st: &Stretch, elems: Vec<AzksElement>, latest_epoch: Option<u64>) -> Result<(Digest, Vec<NodeLabel>), String> {
    let db = HookDb::new();
    let manager = StorageManager::new_no_cache(db.clone());
    let mut azks = Azks::new::<TC, _>(&manager).await.map_err(|e| format!("{e}"))?;
    if let Some(e) = latest_epoch {
        azks.latest_epoch = e;
    }
    azks.batch_insert_nodes::<TC, _>(&manager, elems, InsertMode::Auditor, AzksParallelismConfig::default())
        .await
        .map_err(|e| format!("{e}"))?;
    let h = azks.get_root_hash::<TC, _>(&manager).await.map_err(|e| format!("{e}"))?;
    let nodes = project_tree(&db.all_records().await, azks.latest_epoch)?;
    let _ = st;
    Ok((h, nodes.iter().filter(|n| n.node_type == TreeNodeType::Leaf).map(|n| n.label).collect()))
}

fn subsets_upto<T: Clone>(items: &[T], k: usize) -> Vec<Vec<T>> {
    let mut out: Vec<Vec<T>> = vec![vec![]];
    let n = items.len();
    if k >= 1 {
        for i in 0..n {
            out.push(vec![items[i].clone()]);
        }
    }
    if k >= 2 {
        for i in 0..n {
            for j in (i + 1)..n {
                out.push(vec![items[i].clone(), items[j].clone()]);
            }
        }
    }
    if k >= 3 {
        for i in 0..n {
            for j in (i + 1)..n {
                for l in (j + 1)..n {
                    out.push(vec![items[i].clone(), items[j].clone(), items[l].clone()]);
                }
            }
        }
    }
    out
}

impl<TC: HasRef> RealTree<TC> {
    /// C09: the adversarial server against the real auditor. Candidates exactly as AkdTrie!AuditSoundAt.
    pub async fn auditor_events(&self, tr: &mut Tracer, max_u: usize, max_i: usize) {
        let t = self.azks.latest_epoch;
        let end = t + 1;
        let hs = match self.root_hash().await {
            Some(h) => h,
            None => {
                tr.emit(json!({"ev": "error", "what": "no root"}));
                return;
            }
        };
        let nodes = self.nodes_at(t).await.unwrap_or_default();
        let non_root: Vec<TreeNode> = nodes.iter().filter(|n| n.label.label_len > 0).cloned().collect();
        // all labels of length 1..D with values {1,2}
        let mut ins_pool: Vec<(Vec<u8>, u64)> = vec![];
        for len in 1..=self.st.d {
            for i in 0..(1u32 << len) {
                let bits: Vec<u8> = (0..len).map(|b| ((i >> (len - 1 - b)) & 1) as u8).collect();
                for v in [1u64, 2u64] {
                    ins_pool.push((bits.clone(), v));
                }
            }
        }
        let ins_choices = subsets_upto(&ins_pool, max_i);
        let mut cands = vec![];
        let mut tried = 0u64;
        for u in subsets_upto(&non_root, max_u) {
            let u_elems: Vec<AzksElement> = u.iter().map(|n| self.elem_of(&Some(n.clone()))).collect();
            let u_json: Vec<Value> = u.iter().map(|n| self.lab_json(&n.label)).collect();
            let start_ok = match auditor_rebuild::<TC>(&self.st, u_elems.clone(), None).await {
                Ok((h, _)) => h == hs,
                Err(_) => false,
            };
            let choices: Vec<Vec<(Vec<u8>, u64)>> = if start_ok { ins_choices.clone() } else { vec![vec![]] };
            for ins in choices {
                tried += 1;
                let i_elems: Vec<AzksElement> = ins.iter().map(|(b, v)| AzksElement { label: self.st.to_real(b), value: real_value(*v) }).collect();
                let mut end_set = u_elems.clone();
                end_set.extend(i_elems.iter().map(|x| AzksElement { label: x.label, value: AzksValue(TC::hash_leaf_with_commitment(x.value, end).0) }));
                let (he, survive) = match auditor_rebuild::<TC>(&self.st, end_set, Some(end - 1)).await {
                    Ok(x) => x,
                    Err(e) => {
                        cands.push(json!({"u": u_json, "i": ins, "start_ok": start_ok, "verdict": false, "survive": [], "err": e}));
                        continue;
                    }
                };
                let proof = SingleAppendOnlyProof { inserted: i_elems, unchanged_nodes: u_elems.clone() };
                let verdict = akd::auditor::verify_consecutive_append_only::<TC>(&proof, hs, he, end).await.is_ok();
                let sv: Vec<Value> = survive.iter().map(|l| self.lab_json(l)).collect();
                let ij: Vec<Value> = ins.iter().map(|(b, v)| json!([b, v])).collect();
                if start_ok {
                    cands.push(json!({"u": u_json, "i": ij, "start_ok": true, "verdict": verdict, "survive": sv}));
                } else {
                    cands.push(json!({"u": u_json, "i": ij, "start_ok": false, "verdict": verdict, "survive": []}));
                }
            }
        }
        // a proof that lists an element twice: the honest cut (children of the root) with one element repeated
        let root = nodes.iter().find(|n| n.label.label_len == 0).cloned();
        let mut dup_verdict = "n/a".to_string();
        if let Some(r) = root {
            let mut cut: Vec<AzksElement> = vec![];
            for c in [r.left_child, r.right_child].into_iter().flatten() {
                if let Some(n) = nodes.iter().find(|n| n.label == c) {
                    cut.push(self.elem_of(&Some(n.clone())));
                }
            }
            if !cut.is_empty() {
                let mut dup = cut.clone();
                dup.push(cut[0]);
                let he = auditor_rebuild::<TC>(&self.st, dup.clone(), Some(end - 1)).await.map(|x| x.0).unwrap_or([0u8; 32]);
                let proof = SingleAppendOnlyProof { inserted: vec![], unchanged_nodes: dup };
                dup_verdict = format!("{}", akd::auditor::verify_consecutive_append_only::<TC>(&proof, hs, he, end).await.is_ok());
            }
        }
        tr.emit(json!({"ev": "auditor", "max_u": max_u, "max_i": max_i, "cands": cands, "tried": tried, "dup_verdict": dup_verdict}));
    }
}

/// One behaviour: {"cfg","stretch","assign":[[bits,val,ep]..],"mode":"dir"|"aud","par","do":["tree","mem","nonmem","audit"], "split": optional}
pub async fn run_trie<TC: HasRef>(b: &Value, tr: &mut Tracer) {
    let st = Stretch::from_json(&b["stretch"]);
    let aud = b["mode"].as_str().unwrap_or("dir") == "aud";
    let par = par_of(b["par"].as_str().unwrap_or("disabled"));
    let cached = b["cached"].as_bool().unwrap_or(false);
    let todo: Vec<String> = b["do"].as_array().map(|a| a.iter().map(|x| x.as_str().unwrap().to_string()).collect()).unwrap_or_default();
    let wants = |k: &str| todo.iter().any(|x| x == k);
    // optional split: each epoch's batch is inserted as several sub-batches (list of lists of indices into assign)
    let tree = if let Some(split) = b["split"].as_array() {
        let items: Vec<(Vec<u8>, u64, u64)> = b["assign"].as_array().unwrap().iter().map(|x| (bits_of(&x[0]), x[1].as_u64().unwrap(), x[2].as_u64().unwrap())).collect();
        let mut t = RealTree::<TC>::new(st.clone(), aud, par, cached).await;
        let mut cur_epoch = 0;
        let mut err = None;
        for part in split {
            let idx: Vec<usize> = part.as_array().unwrap().iter().map(|x| x.as_u64().unwrap() as usize).collect();
            if idx.is_empty() {
                continue;
            }
            let ep = items[idx[0]].2;
            let batch: Vec<(Vec<u8>, u64)> = idx.iter().map(|i| (items[*i].0.clone(), items[*i].1)).collect();
            let r = if ep == cur_epoch { t.insert_same_epoch(&batch).await } else { t.insert(&batch).await };
            cur_epoch = ep;
            if let Err(e) = r {
                err = Some(e);
                break;
            }
        }
        match err {
            None => Ok(t),
            Some(e) => Err(e),
        }
    } else {
        RealTree::<TC>::build(&b["assign"], st.clone(), aud, par, cached).await
    };
    let tree = match tree {
        Ok(t) => t,
        Err(e) => {
            tr.emit(json!({"ev": "tree", "id": b["id"], "cfg": TC::NAME, "assign": b["assign"], "mode": b["mode"], "res": "err", "what": e,
                "t": 0, "nodes": [], "prev": [], "num": 0, "root_ok": false, "stretch": st.to_json()}));
            return;
        }
    };
    let t = tree.azks.latest_epoch;
    let root_ok = tree.root_hash().await == Some(tree.ref_root(t));
    let prev = if t > 0 { tree.view_json(t - 1).await } else { json!([]) };
    tr.emit(json!({"ev": "tree", "id": b["id"], "cfg": TC::NAME, "assign": tree.assign_json(), "mode": if aud {"aud"} else {"dir"}, "res": "ok",
        "t": t, "nodes": tree.view_json(t).await, "prev": prev, "num": tree.azks.num_nodes, "root_ok": root_ok,
        "stretch": st.to_json(), "split": if b["split"].is_null() { json!([]) } else { b["split"].clone() },
        "par": b["par"].as_str().unwrap_or("disabled")}));
    if wants("mem") || wants("nonmem") {
        tree.proof_events(tr, wants("mem"), wants("nonmem")).await;
    }
    if wants("audit") {
        tree.audit_events(tr).await;
    }
    if wants("auditor") {
        tree.auditor_events(tr, b["max_u"].as_u64().unwrap_or(3) as usize, b["max_i"].as_u64().unwrap_or(1) as usize).await;
    }
}

pub fn main_trie(args: &[String]) {
    let input = arg_val(args, "--in").expect("--in");
    let out = arg_val(args, "--out").expect("--out");
    let threads: usize = arg_val(args, "--threads").map(|s| s.parse().unwrap()).unwrap_or(8);
    let behaviours = read_ndjson(&input);
    let (n, total) = crate::dirdrv::run_parallel(behaviours, &out, threads, |b| async move {
        let mut tr = Tracer::new();
        match b["cfg"].as_str().unwrap_or("wa") {
            "wa" => run_trie::<Wa>(&b, &mut tr).await,
            _ => run_trie::<Exp>(&b, &mut tr).await,
        }
        tr
    });
    println!("{}", json!({"behaviours": n, "events": total}));
}

#[allow(dead_code)]
fn _unused(_: DbRecord, _: Direction, _: SiblingProof) {
    let _ = as_of;
}
