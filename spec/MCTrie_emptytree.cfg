CONSTANTS
  D = 3
  MaxEpoch = 1
  MaxLeaves = 1
  Export = FALSE
  PrevEpochChecked = TRUE
  ChildPrefixChecked = TRUE
  PrefixFreeChecked = TRUE
  TopLabelChecked = TRUE
INIT Init
NEXT Next
INVARIANTS EmptyTreeAbsenceProvable
CHECK_DEADLOCK FALSE
