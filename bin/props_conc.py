"""Concurrency / fault properties decided with AkdConcurrent.tla (design level, TLC) and bound to the code through
TraceDirectory.tla (call level): C10 (failed publish has no effect), C12 (concurrent publishes serialize),
C13 (answers name published pairs, lagging or overlapping readers)."""
import json, os, random
from vlib import *
import props_dir

def run_conc_mc(chk, cfg, expect_violation=False, workers=8, module="MCConcurrent"):
    res = run_tlc_mc(module, cfg, chk.wd, workers=workers, timeout=1500, heap="8g")
    chk.add_mc(res)
    if expect_violation:
        if not res["violation"]:
            raise ToolError(f"vacuity guard: TLC did not refute the pinned behaviour in {cfg}")
    elif res["violation"]:
        chk.violation(f"TLC: design-level violation in {cfg}: {res['violation'][:300]}", {"tlc_output": res["out"]})
    log(f"[mc] {cfg}: {res['distinct']} distinct states, {res['generated']} transitions{' (refuted, as expected)' if expect_violation else ''}")
    return res

def alt_batch(batch, labels, values):
    """a different batch for the publish that follows a failed one: other values for the same labels plus another label"""
    out = []
    used = set()
    for l, v in batch:
        if l in used:
            continue
        used.add(l)
        out.append([l, [x for x in values if x != v][0]])
    for l in labels:
        if l not in used:
            out.append([l, values[0]])
            break
    return out

def c10():
    chk = Check("C10", "model_checking")
    run_conc_mc(chk, "MCConcurrent_fault1.cfg")
    run_conc_mc(chk, "MCConcurrent_fault1nc.cfg")
    run_conc_mc(chk, "MCConcurrent_fault1_pinned.cfg", expect_violation=True)
    run_conc_mc(chk, "MCConcurrent_readfault.cfg")
    exported = props_dir.export_behaviours(chk, ["MCDirectory_quick.cfg"])
    def effective_last(steps):
        cur = {}
        for st in steps[:-1]:
            if st["op"] == "publish":
                labs = [p[0] for p in st["batch"]]
                if len(set(labs)) == len(labs):
                    for l, v in st["batch"]:
                        cur[l] = v
        last = steps[-1]
        if last["op"] != "publish":
            return False
        labs = [p[0] for p in last["batch"]]
        return len(set(labs)) == len(labs) and any(cur.get(l) != v for l, v in last["batch"])
    exported = [x for x in exported if x[2] and effective_last(x[2])]
    rnd = random.Random(chk.seed)
    n = 160 if chk.tier == "quick" else 600
    sample = rnd.sample(exported, min(n, len(exported)))
    cells = [dict(props_dir.DEFAULT_CELL, cache=c, par=p) for (c, p) in [("none", "disabled"), ("default", "disabled"), ("none", "s2"), ("default", "s4")]]
    bs = []
    for i, (labels, values, steps, deep) in enumerate(sample):
        cell = cells[i % len(cells)]
        bs.append({"id": i + 1, "cfg": ["wa", "exp"][i % 2], "conc": i % 3, "cell": cell, "labels": labels, "values": values,
                   "kinds": ["epoch_hash", "lookup", "audit"], "sweep": "end",
                   "steps": steps[:-1] + [dict(steps[-1], op="publish_fault_sweep", alt=alt_batch(steps[-1]["batch"], labels, values))]})
    traces = props_dir.run_dir_harness(chk, bs)
    results = validate_traces("TraceDirectory", "TraceDirectory.cfg", traces, chk.wd)
    chk.handle_validation(results)
    faults = 0
    failed_kinds = {}
    seen = set()
    for evs in props_dir.scan_behaviours(traces):
        pf = [e for e in evs if e["ev"] == "publish_fault"]
        faults += len(pf)
        for e in pf:
            failed_kinds[e["failed_op"]] = failed_kinds.get(e["failed_op"], 0) + 1
            if e["res"] == "err":
                seen.add((json.dumps([x for x in evs if x["ev"] == "publish"][:3]), e["k"], evs[0]["cfg"], json.dumps(evs[0]["cell"])))
        if pf and len(chk.cov["samples"]) < 2:
            chk.cov["samples"].append([e for e in evs if e["ev"] in ("reset", "publish", "publish_fault")][:10])
    chk.cov["fault_points_injected"] = faults
    chk.cov["failed_operation_kinds"] = failed_kinds
    chk.cov["distinct_nontrivial"] = len(seen)
    chk.cov["exhaustive"] = False
    chk.cov["rule"] = ("TLC proves AtomicFailure / NoTxnLeftOpen on AkdConcurrent for every storage operation of a publish failing (cached and uncached), "
        "and refutes the pinned variant (root hash read back after the commit). On the real code, for the last publish of each sampled TLC-generated "
        "history, the publish is first run fault-free on a copy to learn its N storage operations and then re-run N times on fresh copies with operation "
        "k = 1..N failing (Connection error), cached and uncached managers, sequential and parallel insertion; after each: sweep on the same instance, "
        "sweep on a fresh instance over the same storage, retry of the publish, sweep; TLC validates: error => nothing changed and no transaction left "
        "open; the retry reaches the state of a publish that never failed. Non-trivial = distinct (history, k, configuration, cell) with an error return.")
    chk.assumptions += ["failures are injected as StorageError::Connection at storage-operation granularity (never NotFound, which the code legitimately treats as absence)",
                        "the commit batch fails or succeeds as a whole (partial commits are C11)"]
    return chk.finish()

def export_schedules(chk, cfg):
    res = run_tlc_mc("MCConcurrent", cfg, chk.wd, workers=4, timeout=900, heap="8g")
    chk.add_mc(res)
    if res["violation"]:
        chk.violation(f"TLC: design-level violation in {cfg}: {res['violation'][:300]}", {"tlc_output": res["out"]})
    scheds = [json.loads(x) for x in res["export"].get("SCHED", [])]
    log(f"[mc] {cfg}: {res['distinct']} distinct states, {len(scheds)} complete interleavings exported")
    return scheds

def run_conc_harness(chk, behaviours, name="conc"):
    binp = build_harness()
    inp = f"{chk.wd}/{name}_behaviours.ndjson"
    with open(inp, "w") as f:
        for b in behaviours:
            f.write(json.dumps(b) + "\n")
    outd = f"{chk.wd}/{name}_traces"
    rc, out, err = sh(f"{binp} conc --in {inp} --out {outd} --threads {min(NCPU, 16)}", timeout=3000)
    if rc != 0:
        raise ToolError(f"harness conc failed rc={rc}: {err[-2000:]}")
    info = json.loads(out.strip().splitlines()[-1])
    chk.cov["evaluations"] += info["behaviours"]
    chk.cov.setdefault("events", 0)
    chk.cov["events"] += info["events"]
    return sorted(glob.glob(f"{outd}/trace_*.ndjson"))

def validate_proto(chk, behaviours, name="proto"):
    """Op-level conformance: the gate-scheduled runs once more, recording akd's transaction linearization points
    (guarded trace hook), the database writes and the call returns in real order; TLC validates every event
    against the effects of AkdConcurrent (TraceConcurrent.tla) and evaluates its invariants in every state."""
    gated = [dict(b, proto=True) for b in behaviours if not b.get("mt")]
    inp = f"{chk.wd}/{name}_behaviours.ndjson"
    with open(inp, "w") as f:
        for b in gated:
            f.write(json.dumps(b) + "\n")
    outd = f"{chk.wd}/{name}_traces"
    rc, out, err = sh(f"{BIN} conc --in {inp} --out {outd} --threads {min(NCPU, 16)}", timeout=3000)
    if rc != 0:
        raise ToolError(f"harness conc (protocol mode) failed rc={rc}: {err[-2000:]}")
    info = json.loads(out.strip().splitlines()[-1])
    traces = sorted(glob.glob(f"{outd}/trace_*.ndjson"))
    results = validate_traces("TraceConcurrent", "TraceConcurrent.cfg", traces, chk.wd, chunk=6000)
    before = chk.cov["traces_validated_against_impl"]
    chk.handle_validation(results, label="op-level protocol ")
    kinds = {}
    for t in traces:
        with open(t) as f:
            for line in f:
                ev = json.loads(line)["ev"]
                kinds[ev] = kinds.get(ev, 0) + 1
    chk.cov["protocol_runs_validated"] = chk.cov["traces_validated_against_impl"] - before
    chk.cov["protocol_events"] = kinds
    chk.cov["checker_cmd"] += " ; tlc -workers 1 -config TraceConcurrent.cfg TraceConcurrent.tla (per protocol trace file)"
    return kinds

TAIL = [1] * 80 + [2] * 80 + [3] * 80 + [4] * 80 + [5] * 80

PUB_SCENARIOS = [
    # (prefix, batch of publisher 1, batch of publisher 2[, batch of publisher 3])
    ([[["a", "x"]]], [["a", "y"]], [["b", "x"]]),
    ([[["a", "x"]], [["b", "x"]]], [["a", "y"]], [["a", "y"]]),
    ([], [["a", "x"]], [["a", "y"], ["b", "y"]]),
    ([[["a", "x"], ["b", "x"]]], [["a", "y"], ["b", "y"]], [["b", "y"]]),
]

def c12():
    chk = Check("C12", "model_checking")
    run_conc_mc(chk, "MCConcurrent_pub2.cfg")
    run_conc_mc(chk, "MCConcurrent_pub3c.cfg")
    run_conc_mc(chk, "MCConcurrent_pub2_pinned.cfg", expect_violation=True)
    run_conc_mc(chk, "MCConcurrent_pub2_norecheck.cfg", expect_violation=True)
    run_conc_mc(chk, "MCConcurrent_pub2_noheld.cfg", expect_violation=True)
    # liveness under weak fairness: every call returns and the flag is always eventually released (2 publishers, a reader, cache, 1 fault)
    run_conc_mc(chk, "MCConcurrentLive.cfg", module="MCConcurrentLive", workers=4)
    run_conc_mc(chk, "MCConcurrentLive_pinned.cfg", module="MCConcurrentLive", workers=4, expect_violation=True)
    scheds = export_schedules(chk, "MCConcurrent_pub2x.cfg")
    rnd = random.Random(chk.seed)
    bs = []
    def add(prefix, procs, schedule, cache):
        bs.append({"id": len(bs) + 1, "cfg": ["wa", "exp"][len(bs) % 2], "conc": len(bs) % 3, "cache": cache, "labels": ["a", "b"], "values": ["x", "y"],
                   "kinds": ["epoch_hash", "lookup", "audit"], "prefix": prefix, "procs": procs, "schedule": schedule})
    pidmap = {"A": 1, "B": 2, "C": 3}
    # (i) every complete interleaving of the two-publisher model, as storage-operation grants
    take = scheds if chk.tier == "thorough" else rnd.sample(scheds, min(len(scheds), 260))
    for i, sc in enumerate(take):
        prefix, b1, b2 = PUB_SCENARIOS[i % len(PUB_SCENARIOS)][:3]
        mult = 1 + (i % 3)
        seq = [pidmap[x] for x in sc for _ in range(mult)]
        add(prefix, [{"pid": 1, "kind": "publish", "batch": b1}, {"pid": 2, "kind": "publish", "batch": b2}], seq + TAIL, ["none", "default"][i % 2])
    # (ii) bounded preemption: A runs i operations, B runs j, A finishes, B finishes (and mirrored)
    rng_i = range(0, 15) if chk.tier == "quick" else range(0, 22)
    for si, (prefix, b1, b2) in enumerate(PUB_SCENARIOS):
        for i in rng_i:
            for j in (range(0, 15, 2) if chk.tier == "quick" else range(0, 22)):
                for (first, second) in ((1, 2), (2, 1)):
                    if chk.tier == "quick" and (i + j + si) % 3 != 0:
                        continue
                    add(prefix, [{"pid": 1, "kind": "publish", "batch": b1}, {"pid": 2, "kind": "publish", "batch": b2}],
                        [first] * i + [second] * j + [first] * 80 + [second] * 80, ["none", "default"][(i + j) % 2])
    # (iii) three publishers, seeded random schedules
    for k in range(150 if chk.tier == "quick" else 1500):
        seq = [rnd.choice([1, 2, 3]) for _ in range(rnd.randint(5, 60))]
        add([[["a", "x"]]], [{"pid": 1, "kind": "publish", "batch": [["a", "y"]]}, {"pid": 2, "kind": "publish", "batch": [["b", "x"]]},
                              {"pid": 3, "kind": "publish", "batch": [["a", "y"], ["b", "y"]]}], seq + TAIL, ["none", "default"][k % 2])
    # (iv) truly parallel runs on a multi-thread runtime (gate open): 2-4 publishers racing
    for k in range(120 if chk.tier == "quick" else 600):
        npub = 2 + k % 3
        batches = [[["a", "y"]], [["b", "x"]], [["a", "y"], ["b", "y"]], [["b", "y"]]][:npub]
        add([[["a", "x"]]], [{"pid": i + 1, "kind": "publish", "batch": bt} for i, bt in enumerate(batches)], [], ["none", "default"][k % 2])
        bs[-1]["mt"] = True
        bs[-1]["par"] = "s2"
    # (v) a storage operation of one publisher fails while the other is under way (fault x interleaving)
    for si, (prefix, b1, b2) in enumerate(PUB_SCENARIOS):
        for k in (range(1, 16) if chk.tier == "quick" else range(1, 24)):
            for i in ((0, 3, 7) if chk.tier == "quick" else range(0, 12)):
                add(prefix, [{"pid": 1, "kind": "publish", "batch": b1}, {"pid": 2, "kind": "publish", "batch": b2}],
                    [2] * i + [1] * 80 + [2] * 80, ["none", "default"][(k + i) % 2])
                bs[-1]["faults"] = [[1, k]]
    # (vi) completion-gated, cold cache: a publish (one that changes nothing, or a real one) has a database answer
    # held back while another publish commits; a third publish then builds on what the instance has cached
    for zi, zbatch in enumerate(([["a", "x"]], [["b", "y"]])):
        for i in (range(1, 12) if chk.tier == "quick" else range(1, 30)):
            for order in ((1, 2), (2, 1)):
                procs = [{"pid": 3, "kind": "publish", "batch": zbatch}, {"pid": 1, "kind": "publish", "batch": [["a", "y"]]},
                         {"pid": 2, "kind": "publish", "batch": [["b", "x"], ["c", "x"]]}]
                add([[["a", "x"]]], procs, [3] * i + [order[0]] * 300 + [3] * 300 + [order[1]] * 300, "default")
                bs[-1].update(post=True, flush_before=True, labels=["a", "b", "c"])
    traces = run_conc_harness(chk, bs)
    results = validate_traces("TraceDirectory", "TraceDirectory.cfg", traces, chk.wd)
    chk.handle_validation(results)
    validate_proto(chk, bs)
    both = 0
    refused = 0
    seen = set()
    for evs in props_dir.scan_behaviours(traces):
        cp = [e for e in evs if e["ev"] == "cpublish"]
        oks = [e for e in cp if e["res"] == "ok"]
        if len(oks) >= 2:
            both += 1
        refused += sum(1 for e in cp if e["res"] == "err")
        run = [e for e in evs if e["ev"] == "reopen" and e.get("kind") == "concurrent_run"]
        if run and run[0]["granted"] >= 3:
            seen.add(json.dumps(run[0]["schedule"][:60]) + json.dumps([e["batch"] for e in cp]) + evs[0]["cfg"] + evs[0]["cell"]["cache"])
        if len(chk.cov["samples"]) < 2 and len(oks) >= 2:
            chk.cov["samples"].append([e for e in evs if e["ev"] in ("reset", "publish", "cpublish", "final_leaves")] + [{"schedule": run[0]["schedule"][:40]}])
    chk.cov["runs_with_two_or_more_effective_publishes"] = both
    chk.cov["refused_calls"] = refused
    chk.cov["distinct_nontrivial"] = len(seen)
    chk.cov["exhaustive"] = False
    chk.cov["rule"] = ("TLC checks EpochsDistinct, ReturnedPairsStayPublished, FinalEqualsSerial and NoTxnLeftOpen over ALL interleavings of 2 (and 3, cached) "
        "publishers at storage-operation granularity on AkdConcurrent, and refutes each pinned switch (epoch read before the flag, flag released before "
        "the database write). Real runs: publishes on clones of one Directory as tasks whose every storage operation is granted by the harness's gate: "
        "(i) the complete interleavings exported by TLC (as operation grants, stretched x1..x3), (ii) all two-preemption schedules 'A i ops, B j ops, A to "
        "end, B to end' and mirrored, (iii) seeded random schedules of three publishers, (iv) 2-4 publishers racing on a 4-thread runtime with the gate open; cached and uncached. The calls are serialised by returned epoch "
        "and TLC validates them against AkdDirectory: effective calls take consecutive epochs, failed calls have no effect, the final leaves and the "
        "full sweep equal the serial application, no transaction is left open. Non-trivial = distinct (schedule, batches, configuration, cache) runs with "
        ">= 3 gated operations.")
    chk.assumptions += ["interleavings at storage-operation granularity on a single-threaded runtime (finer interleavings, e.g. between two statements that perform no storage operation, are not explored)",
                        "a refused call (transaction active / directory moved) counts as 'fails without effect'"]
    return chk.finish()

def c13():
    chk = Check("C13", "model_checking")
    run_conc_mc(chk, "MCConcurrent_read.cfg")
    run_conc_mc(chk, "MCConcurrent_readfault.cfg")
    run_conc_mc(chk, "MCConcurrent_read_pinned.cfg", expect_violation=True)
    run_conc_mc(chk, "MCConcurrent_readlocal.cfg")
    run_conc_mc(chk, "MCConcurrent_read_pending.cfg", expect_violation=True)
    # a remote reader that does not take the instance's cache lock (get_epoch_hash): the poller's flush may fall between its reads
    run_conc_mc(chk, "MCConcurrent_readlockfree.cfg")
    run_conc_mc(chk, "MCConcurrent_readlockfree_pinned.cfg", expect_violation=True)
    scheds = export_schedules(chk, "MCConcurrent_readx.cfg")
    rnd = random.Random(chk.seed)
    # (a) lagging remote instance: warmed at epoch t, storage moves on by 1..4 epochs; with and without poller
    lag = []
    hist = [[["a", "x"]], [["a", "y"], ["b", "x"]], [["b", "y"]], [["a", "x"]], [["a", "y"], ["b", "x"]], [["b", "y"]]]
    for warm_at in (1, 2, 3):
        for cache in ("default", "short"):
            for poll_after in (None, 1, 2, 3):
                steps = [{"op": "publish", "batch": b} for b in hist[:warm_at]]
                steps.append({"op": "remote_open", "cache": cache})
                for k, b in enumerate(hist[warm_at:warm_at + 3]):
                    steps.append({"op": "publish", "batch": b})
                    if poll_after is not None and k + 1 == poll_after:
                        steps.append({"op": "remote_poll"})
                    steps.append({"op": "remote_read"})
                for cfg in ("wa", "exp"):
                    lag.append({"id": len(lag) + 1, "cfg": cfg, "conc": len(lag) % 3, "cell": dict(props_dir.DEFAULT_CELL), "labels": ["a", "b"],
                                "values": ["x", "y"], "kinds": [], "sweep": "end", "steps": steps})
    ltraces = props_dir.run_dir_harness(chk, lag, name="lag")
    # (b) requests overlapping publishes, gate-scheduled
    bs = []
    def add(prefix, procs, schedule, cache):
        bs.append({"id": len(bs) + 1, "cfg": ["wa", "exp"][len(bs) % 2], "conc": len(bs) % 3, "cache": cache, "labels": ["a", "b"], "values": ["x", "y"],
                   "kinds": ["epoch_hash", "lookup"], "prefix": prefix, "procs": procs, "schedule": schedule})
    readers = [{"kind": "lookup", "label": "a"}, {"kind": "history", "label": "a", "n": 0}, {"kind": "history", "label": "a", "n": 1},
               {"kind": "audit", "s": 0, "e": 2}, {"kind": "epoch_hash"}, {"kind": "lookup", "label": "b"}]
    prefix = [[["a", "x"]], [["a", "y"], ["b", "x"]]]
    pidmap = {"A": 1, "r": 3}
    take = scheds if chk.tier == "thorough" else rnd.sample(scheds, min(len(scheds), 120))
    for i, sc in enumerate(take):
        rd = dict(readers[i % len(readers)], pid=3)
        mult = 1 + (i % 3)
        seq = [pidmap.get(x, 3) for x in sc for _ in range(mult)]
        add(prefix, [{"pid": 1, "kind": "publish", "batch": [["a", "x"]]}, rd], seq + TAIL, ["none", "default"][i % 2])
    for ri, rd0 in enumerate(readers):
        for i in (range(0, 14) if chk.tier == "quick" else range(0, 40)):
            # reader runs i operations, one or two publishes complete, reader finishes
            for npub in (1, 2):
                procs = [{"pid": 1, "kind": "publish", "batch": [["a", "x"]]}, dict(rd0, pid=3)]
                sched = [3] * i + [1] * 80
                if npub == 2:
                    procs.append({"pid": 2, "kind": "publish", "batch": [["b", "y"]]})
                    sched += [2] * 80
                add(prefix, procs, sched + [3] * 80, ["none", "default"][(i + ri) % 2])
    # wide scenario: both publishes rewrite every upper node of the tree, so a request overtaken by both meets
    # records whose two versions are both newer than its epoch; local readers and a remote cached instance
    wide_labels = ["a", "b", "c", "d", "f", "g", "h", "i"]
    wprefix = [[[l, "x"] for l in wide_labels]]
    for ri, rd0 in enumerate(readers[:5]):
        for remote in (False, True):
            for i in (range(0, 12) if chk.tier == "quick" else range(0, 40)):
                rd = dict(rd0, pid=3, remote=remote)
                if rd["kind"] == "audit":
                    rd = dict(rd, s=0, e=1)
                procs = [{"pid": 1, "kind": "publish", "batch": [[l, "y"] for l in wide_labels]},
                         {"pid": 2, "kind": "publish", "batch": [[l, "x"] for l in wide_labels]}, rd]
                bs.append({"id": len(bs) + 1, "cfg": ["wa", "exp"][len(bs) % 2], "conc": len(bs) % 3, "cache": "none" if not remote else ["none", "default"][i % 2],
                           "labels": wide_labels, "values": ["x", "y"], "kinds": ["epoch_hash"], "prefix": wprefix, "procs": procs,
                           "schedule": [3] * i + [1] * 200 + [2] * 200 + [3] * 200})
    # completion-gated runs: the answer of a reader's storage operation arrives only after a whole publish
    # (a cache fill racing with the commit); cached local readers, then the final sweep must still be right
    for ri, rd0 in enumerate(readers[:3] + [readers[4]]):
        for i in (range(0, 10) if chk.tier == "quick" else range(0, 30)):
            procs = [{"pid": 1, "kind": "publish", "batch": [["a", "x"]]}, dict(rd0, pid=3)]
            bs.append({"id": len(bs) + 1, "cfg": ["wa", "exp"][len(bs) % 2], "conc": len(bs) % 3, "cache": "default", "labels": ["a", "b"], "values": ["x", "y"],
                       "kinds": ["epoch_hash", "lookup"], "prefix": prefix + [[["b", "y"]]], "procs": procs, "post": True, "flush_before": True,
                       "schedule": [3] * i + [1] * 200 + [3] * 200})
    # requests STARTING at any point of a publish, including akd's guarded scheduling point at which the new epoch
    # record is pending in the shared transaction log (between two statements that perform no storage operation)
    for ri, rd0 in enumerate(readers[:5]):
        for i in (range(0, 18, 2) if chk.tier == "quick" else range(0, 30)):
            for j in ((1, 3) if chk.tier == "quick" else range(1, 6)):
                procs = [{"pid": 1, "kind": "publish", "batch": [["a", "x"]]}, dict(rd0, pid=3)]
                bs.append({"id": len(bs) + 1, "cfg": ["wa", "exp"][len(bs) % 2], "conc": len(bs) % 3, "cache": ["none", "default"][(i + ri) % 2], "labels": ["a", "b"],
                           "values": ["x", "y"], "kinds": ["epoch_hash", "lookup"], "prefix": prefix, "procs": procs, "sched_points": True,
                           "schedule": [1] * i + [3] * j + [1] + [3] * 200 + [1] * 200})
    # a remote cached instance with its real change poller: a request's database answer is held back (completion gate),
    # the writer publishes, the poller flushes the instance's cache and reloads the epoch record, the held-back answer
    # arrives, and a later request on that instance must still be answered consistently (cache fill across a flush)
    for rk in (readers[4], readers[0]):
        for rk2 in (readers[4], readers[0], readers[1]):
            for i in (range(1, 7) if chk.tier == "quick" else range(1, 14)):
                procs = [{"pid": 1, "kind": "publish", "batch": [["a", "x"]]}, dict(rk, pid=3, remote=True), {"pid": 5, "kind": "poll", "remote": True},
                         dict(rk2, pid=4, remote=True)]
                bs.append({"id": len(bs) + 1, "cfg": ["wa", "exp"][len(bs) % 2], "conc": len(bs) % 3, "cache": "none", "labels": ["a", "b"], "values": ["x", "y"],
                           "kinds": ["epoch_hash"], "prefix": prefix, "procs": procs, "post": True, "shared_remote": True,
                           "schedule": [3] * i + [1] * 200 + [5] * 60 + [3] * 200 + [4] * 200})
    ctraces = run_conc_harness(chk, bs)
    results = validate_traces("TraceDirectory", "TraceDirectory.cfg", ltraces + ctraces, chk.wd)
    chk.handle_validation(results)
    validate_proto(chk, bs)
    answers = {}
    seen = set()
    for evs in props_dir.scan_behaviours(ltraces + ctraces):
        ra = [e for e in evs if e["ev"] == "ranswer"]
        cur = max([e["epoch"] for e in evs if e["ev"] in ("publish", "cpublish") and e["res"] == "ok"] + [0])
        for e in ra:
            key = (e["kind"], e["res"], "behind" if e.get("epoch", 0) < cur and e["res"] == "ok" else "current" if e["res"] == "ok" else "-")
            answers[str(key)] = answers.get(str(key), 0) + 1
        if any(e["res"] == "ok" and e.get("epoch", 0) < cur for e in ra) or any(e["res"] == "err" for e in ra):
            seen.add(json.dumps([e for e in evs if e["ev"] in ("publish", "cpublish", "reopen", "notify")])[:600] + evs[0]["cfg"])
        if len(chk.cov["samples"]) < 2 and any(e["res"] == "ok" and e.get("epoch", 0) < cur for e in ra):
            chk.cov["samples"].append([e for e in evs if e["ev"] in ("reset", "publish", "cpublish", "reopen", "notify")][:10] + [e for e in ra if e["res"] == "ok"][:3])
    chk.cov["answers_by_kind_result"] = answers
    chk.cov["distinct_nontrivial"] = len(seen)
    chk.cov["exhaustive"] = False
    chk.cov["rule"] = ("TLC checks AnswersArePublished (the answer names a published (epoch, root) pair and every node version it used is the version as of "
        "that epoch) over all interleavings of publishers, a local reader, a remote reader whose cached epoch record lags 0..2 epochs, the remote "
        "poller, and one storage fault; the pinned 'previous version unchecked' switch is refuted. Real runs: (a) a second cached instance over the same "
        "database, warmed at epoch t, read after storage moved on by 1, 2 and 3 epochs (default and 2 ms caches), with the real change poller run at "
        "different points (answers after a notification must be at least that new); (b) lookup / history / audit / epoch-hash requests overlapping one or "
        "two publishes under TLC-exported interleavings and 'reader i operations, publishes complete, reader finishes' schedules through the gate. "
        "Every answer is verified by akd's client verifier against the pair returned with it and TLC validates: error, or a pair really published with "
        "the results as of exactly that epoch. Non-trivial = distinct runs in which some answer is an error or comes from an epoch behind storage.")
    chk.assumptions += ["interleavings at storage-operation granularity plus akd's guarded scheduling point 'publish:epoch_record_pending'; other points between two statements that perform no storage operation are not explored"]
    return chk.finish()

TABLE = {"C10": c10, "C12": c12, "C13": c13}
