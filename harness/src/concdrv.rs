//! Concurrent driver (C12, C13): runs publishes and reads of clones of one Directory as tasks on a
//! single-threaded runtime; every storage operation of every task waits at the HookDb gate until the
//! controller grants it, so a schedule (a sequence of task ids, one storage operation each) is executed
//! deterministically. Results are recorded at call level for TLC (TraceDirectory).

use crate::common::*;
use crate::dirdrv::{rid, Cell, DirCtx, HasRef};
use crate::hookdb::{CTL, PID};
use akd::verify::history::HistoryParams;
use akd::{Digest, EpochHash, HistoryVerificationParams};
use serde_json::{json, Value};
use std::collections::HashMap;

async fn spin(n: usize) {
    for _ in 0..n {
        tokio::task::yield_now().await;
    }
}

/// Protocol mode (`"proto": true`): the same run, but what is written out is the op-level protocol trace
/// (TraceConcurrent.tla) instead of the call-level one.
pub async fn run_conc<TC: HasRef>(b: &Value, tr: &mut Tracer) {
    if b["proto"].as_bool().unwrap_or(false) {
        let mut scratch = Tracer::new();
        let events = run_conc_inner::<TC>(b, &mut scratch).await;
        for e in events {
            tr.emit(e);
        }
    } else {
        run_conc_inner::<TC>(b, tr).await;
    }
}

/// the root node's value as the digest a caller sees (12 hex digits), other values as they are
fn proto_fix<TC: HasRef>(mut e: Value) -> Value {
    if e.get("recs").is_none() {
        return e;
    }
    if let Some(recs) = e["recs"].as_array_mut() {
        for r in recs.iter_mut() {
            if r["t"] == "node" && r["k"].as_str().unwrap().ends_with("/0") {
                for f in ["lh", "ph"] {
                    let h = r[f].as_str().unwrap().to_string();
                    if h.len() == 64 {
                        let mut v = [0u8; 32];
                        v.copy_from_slice(&hex::decode(&h).unwrap());
                        r[f] = json!(rid(&TC::compute_root_hash_from_val(&akd::AzksValue(v))));
                    }
                }
            }
        }
    }
    e
}

async fn run_conc_inner<TC: HasRef>(b: &Value, tr: &mut Tracer) -> Vec<Value> {
    let proto = b["proto"].as_bool().unwrap_or(false);
    let labels: Vec<String> = b["labels"].as_array().unwrap().iter().map(|x| x.as_str().unwrap().to_string()).collect();
    let values: Vec<String> = b["values"].as_array().unwrap().iter().map(|x| x.as_str().unwrap().to_string()).collect();
    let conc = b["conc"].as_u64().unwrap_or(0);
    let cell = Cell { par: "disabled".into(), cache: b["cache"].as_str().unwrap_or("none").into(), reopen: "same".into(), wire: false };
    let mut ctx = DirCtx::<TC>::new(conc, cell.clone(), labels, values).await;
    for v in ctx.values.clone() {
        ctx.conc.value(&v);
    }
    if let Some(k) = b["kinds"].as_array() {
        ctx.kinds = k.iter().map(|x| x.as_str().unwrap().to_string()).collect();
    }
    tr.emit(json!({"ev": "reset", "cfg": TC::NAME, "conc": conc, "cell": cell.to_json(), "root0": rid(&ctx.roots[0]), "id": b["id"]}));
    for batch in b["prefix"].as_array().unwrap() {
        ctx.publish(batch, tr).await;
    }
    let before_epoch = ctx.roots.len() as u64 - 1;
    if b["flush_before"].as_bool().unwrap_or(false) {
        // start the concurrent run with a cold cache so that reads go to the database
        ctx.manager.flush_cache().await;
    }

    // spawn the processes (gated)
    let mt = b["mt"].as_bool().unwrap_or(false);
    {
        let mut c = ctx.db.ctl.lock().unwrap();
        c.gate_enabled = !mt;
        // "post": the completion of every storage operation is a scheduling point of its own
        c.gate_post = b["post"].as_bool().unwrap_or(false);
        c.sched_points = b["sched_points"].as_bool().unwrap_or(false);
    }
    let mut proto_events: Vec<Value> = vec![];
    if proto {
        // the committed state the run starts from: epoch record, every node record, the published digests
        let recs: Vec<Value> = ctx.db.all_records().await.iter().filter_map(crate::hookdb::rec_json).collect();
        proto_events.push(json!({"ev": "reset", "id": b["id"], "cfg": TC::NAME}));
        proto_events.push(proto_fix::<TC>(json!({"ev": "cstate", "epoch": before_epoch, "recs": recs,
            "roots": ctx.roots.iter().map(rid).collect::<Vec<_>>(),
            "pubs": b["procs"].as_array().unwrap().iter().filter(|p| p["kind"] == "publish").map(|p| p["pid"].clone()).collect::<Vec<_>>()})));
        let mut c = ctx.db.ctl.lock().unwrap();
        c.proto.clear();
        c.proto_enabled = true;
    }
    let debug_log = b["debug_log"].as_bool().unwrap_or(false);
    if debug_log {
        ctx.db.set_log(true);
    }
    let procs = b["procs"].as_array().unwrap().clone();
    let mut handles: HashMap<u32, tokio::task::JoinHandle<Value>> = HashMap::new();
    // "shared_remote": all remote tasks are served by ONE second instance (one cache; needed for its change poller)
    let shared_remote = b["shared_remote"].as_bool().unwrap_or(false);
    let mut rdir = None;
    for p in procs.iter() {
        let pid = p["pid"].as_u64().unwrap() as u32;
        // a reader marked "remote" is served by a second instance: its own cached manager over the same
        // database (cold cache except for the epoch record it read when it was opened)
        let dir = if p["remote"].as_bool().unwrap_or(false) {
            if shared_remote && rdir.is_some() {
                rdir.clone().unwrap()
            } else {
                let m = akd::storage::manager::StorageManager::new(ctx.db.clone(), None, None, None);
                let d = akd::directory::Directory::<TC, _, _>::new(m, ctx.vrf.clone(), akd::append_only_zks::AzksParallelismConfig::disabled()).await.unwrap();
                rdir = Some(d.clone());
                d
            }
        } else {
            ctx.dir.clone()
        };
        let pk = ctx.pk.clone();
        let spec = p.clone();
        let (label, real_batch): (Option<akd::AkdLabel>, Vec<(akd::AkdLabel, akd::AkdValue)>) = match spec["kind"].as_str().unwrap() {
            "publish" => (
                None,
                spec["batch"].as_array().unwrap().iter().map(|x| (ctx.conc.label(x[0].as_str().unwrap()), ctx.conc.value(x[1].as_str().unwrap()))).collect(),
            ),
            "lookup" | "history" => (Some(ctx.conc.label(spec["label"].as_str().unwrap())), vec![]),
            _ => (None, vec![]),
        };
        let start_ctl = ctx.db.ctl.clone();
        let fut = async move {
            // a task begins only when the controller grants it its first step (so that a request can START
            // at any point of another call, not only before it)
            crate::hookdb::gate_wait(&start_ctl, pid, "start", String::new()).await;
            let ret_ctl = start_ctl.clone();
            let kind = spec["kind"].as_str().unwrap().to_string();
            let v = match spec["kind"].as_str().unwrap() {
                "publish" => match dir.publish(real_batch).await {
                    Ok(EpochHash(ep, d)) => json!({"res": "ok", "epoch": ep, "digest": hex::encode(d)}),
                    Err(e) => json!({"res": "err", "what": format!("{e}")}),
                },
                "poll" => {
                    // the instance's change poller, until it has signalled once (its storage operations are gated like any other)
                    let (tx, mut rx) = tokio::sync::mpsc::channel::<()>(4);
                    let run = async {
                        tokio::select! {
                            r = dir.poll_for_azks_changes(std::time::Duration::from_millis(1), Some(tx)) => json!({"res": "err", "what": format!("{r:?}")}),
                            _ = rx.recv() => json!({"res": "notified"}),
                        }
                    };
                    match tokio::time::timeout(std::time::Duration::from_secs(10), run).await {
                        Ok(v) => v,
                        Err(_) => json!({"res": "timeout"}),
                    }
                }
                "epoch_hash" => match dir.get_epoch_hash().await {
                    Ok(EpochHash(ep, d)) => json!({"res": "ok", "epoch": ep, "digest": hex::encode(d)}),
                    Err(_) => json!({"res": "err"}),
                },
                "lookup" => {
                    let l = label.unwrap();
                    match dir.lookup(l.clone()).await {
                        Err(_) => json!({"res": "err"}),
                        Ok((proof, eh)) => match akd::client::lookup_verify::<TC>(&pk, eh.1, eh.0, l, proof) {
                            Ok(vr) => json!({"res": "ok", "epoch": eh.0, "digest": hex::encode(eh.1), "value": hex::encode(&vr.value.0), "version": vr.version, "vepoch": vr.epoch}),
                            Err(_) => json!({"res": "unverified", "epoch": eh.0, "digest": hex::encode(eh.1)}),
                        },
                    }
                }
                "history" => {
                    let l = label.unwrap();
                    let n = spec["n"].as_u64().unwrap_or(0);
                    let hp = if n == 0 { HistoryParams::Complete } else { HistoryParams::MostRecent(n as usize) };
                    match dir.key_history(&l, hp).await {
                        Err(_) => json!({"res": "err"}),
                        Ok((proof, eh)) => match akd::client::key_history_verify::<TC>(&pk, eh.1, eh.0, l, proof, HistoryVerificationParams::Default { history_params: hp }) {
                            Ok(vrs) => json!({"res": "ok", "epoch": eh.0, "digest": hex::encode(eh.1),
                                "list": vrs.iter().map(|v| json!([hex::encode(&v.value.0), v.version, v.epoch])).collect::<Vec<_>>()}),
                            Err(_) => json!({"res": "unverified", "epoch": eh.0, "digest": hex::encode(eh.1)}),
                        },
                    }
                }
                "audit" => {
                    let (s, e) = (spec["s"].as_u64().unwrap(), spec["e"].as_u64().unwrap());
                    match dir.audit(s, e).await {
                        Err(_) => json!({"res": "refused"}),
                        Ok(proof) => json!({"res": "proof", "proof": hex::encode(protobuf::Message::write_to_bytes(&akd::proto::specs::types::AppendOnlyProof::from(&proof)).unwrap())}),
                    }
                }
                other => json!({"res": "err", "what": format!("unknown kind {other}")}),
            };
            {
                // protocol trace: the call returns (recorded in the task, i.e. in real order)
                let mut c = ret_ctl.lock().unwrap();
                if c.proto_enabled {
                    let root = v["digest"].as_str().map(|h| h[..12].to_string()).unwrap_or("-".into());
                    c.proto.push(json!({"ev": "ret", "pid": pid, "kind": kind, "res": v["res"], "epoch": v["epoch"].as_u64().unwrap_or(0), "root": root}));
                }
            }
            v
        };
        handles.insert(pid, tokio::spawn(CTL.scope(ctx.db.ctl.clone(), PID.scope(pid, fut))));
    }

    // controller
    let schedule: Vec<u32> = b["schedule"].as_array().unwrap().iter().map(|x| x.as_u64().unwrap() as u32).collect();
    let mut granted = 0u64;
    // "faults": [[pid, k], ...] - the k-th granted step of task pid (a storage operation) fails
    let faults: Vec<(u32, u64)> = b["faults"].as_array().map(|a| a.iter().map(|x| (x[0].as_u64().unwrap() as u32, x[1].as_u64().unwrap())).collect()).unwrap_or_default();
    let mut per_pid: HashMap<u32, u64> = HashMap::new();
    for pid in schedule.iter() {
        let h = match handles.get(pid) {
            Some(h) => h,
            None => continue,
        };
        let mut waited = 0;
        loop {
            if h.is_finished() {
                break;
            }
            let at_gate = ctx.db.ctl.lock().unwrap().waiting.contains_key(pid);
            if at_gate {
                {
                    let mut c = ctx.db.ctl.lock().unwrap();
                    let n = per_pid.entry(*pid).or_insert(0);
                    *n += 1;
                    let is_op = c.waiting.get(pid).map(|w| w.0 != "start" && w.0 != "complete" && w.0 != "sched_point").unwrap_or(false);
                    if is_op && faults.contains(&(*pid, *n)) {
                        c.fail_next.insert(*pid);
                    }
                    c.grants.push_back(*pid);
                }
                granted += 1;
                // wait until the grant is consumed and the task is at its next gate (or done)
                let mut k = 0;
                loop {
                    tokio::task::yield_now().await;
                    let (consumed, at_next) = {
                        let c = ctx.db.ctl.lock().unwrap();
                        (!c.grants.contains(pid), c.waiting.contains_key(pid))
                    };
                    if h.is_finished() || (consumed && at_next) {
                        break;
                    }
                    k += 1;
                    if consumed && k > 200 {
                        break; // blocked on something that is not a storage operation
                    }
                    if k > 5000 {
                        break;
                    }
                }
                break;
            }
            tokio::task::yield_now().await;
            waited += 1;
            if waited > 300 {
                break; // not arriving: blocked (e.g. on the directory's lock) - skip this slot
            }
        }
    }
    // open the gate and let everything finish
    ctx.db.ctl.lock().unwrap().gate_enabled = false;
    spin(10).await;
    let mut results: HashMap<u32, Value> = HashMap::new();
    for (pid, h) in handles.into_iter() {
        match h.await {
            Ok(v) => {
                results.insert(pid, v);
            }
            Err(e) => {
                results.insert(pid, json!({"res": "panic", "what": format!("{e}")}));
            }
        }
    }
    tr.emit(json!({"ev": "reopen", "kind": "concurrent_run", "schedule": schedule, "granted": granted}));
    if debug_log {
        for o in ctx.db.take_log() {
            eprintln!("op seq={} pid={} {} {} failed={}", o.seq, o.pid, o.kind, o.detail, o.failed);
        }
        ctx.db.set_log(false);
    }
    if proto {
        let mut c = ctx.db.ctl.lock().unwrap();
        c.proto_enabled = false;
        for e in std::mem::take(&mut c.proto) {
            proto_events.push(proto_fix::<TC>(e));
        }
        proto_events.push(json!({"ev": "quiescent", "txn_open": ctx.manager.is_transaction_active()}));
        // the node keys of the run (the specification's database is a function over exactly these)
        let mut keys = std::collections::BTreeSet::new();
        for e in proto_events.iter() {
            if let Some(recs) = e.get("recs").and_then(|r| r.as_array()) {
                for r in recs {
                    if r["t"] == "node" {
                        keys.insert(r["k"].as_str().unwrap().to_string());
                    }
                }
            }
        }
        proto_events[1]["keys"] = json!(keys.into_iter().collect::<Vec<_>>());
    }

    // serialise: effective publishes in epoch order, then no-ops, then failed; then reader answers
    // which (label, value) pairs storage holds per epoch: tells, among calls that returned the same
    // (epoch, digest) pair, which one wrote the epoch and which ones were re-submissions after it
    let mut stored: HashMap<u64, Vec<(Vec<u8>, Vec<u8>)>> = HashMap::new();
    for r in ctx.db.all_records().await {
        if let akd::storage::types::DbRecord::ValueState(vs) = r {
            stored.entry(vs.epoch).or_default().push((vs.username.0.clone(), vs.value.0.clone()));
        }
    }
    let mut wrote = |conc: &mut Conc, ep: u64, batch: &Value| -> bool {
        let st = match stored.get(&ep) {
            Some(s) => s,
            None => return false,
        };
        st.iter().all(|(l, v)| {
            batch.as_array().unwrap().iter().any(|p| conc.label(p[0].as_str().unwrap()).0 == *l && conc.value(p[1].as_str().unwrap()).0 == *v)
        })
    };
    let mut pubs: Vec<(u64, Digest, Value)> = vec![];
    let mut noops: Vec<(u64, Digest, Value)> = vec![];
    let mut failed: Vec<(Value, String)> = vec![];
    for p in procs.iter() {
        if p["kind"] != "publish" {
            continue;
        }
        let pid = p["pid"].as_u64().unwrap() as u32;
        let r = &results[&pid];
        if r["res"] == "ok" {
            let ep = r["epoch"].as_u64().unwrap();
            let mut d = [0u8; 32];
            d.copy_from_slice(&hex::decode(r["digest"].as_str().unwrap()).unwrap());
            // a call that returned an (epoch, digest) pair another call already returned changed nothing
            // (a re-submission serialised after it); the same epoch with a different digest stays "ok"
            let same_pair_seen = pubs.iter().any(|x: &(u64, Digest, Value)| x.0 == ep && x.1 == d);
            if ep > before_epoch && !same_pair_seen && wrote(&mut ctx.conc, ep, &p["batch"]) {
                pubs.push((ep, d, p["batch"].clone()));
            } else if ep > before_epoch && !same_pair_seen && !procs.iter().any(|q| {
                // no other call returned this pair: this call is the only candidate for having written the epoch
                q["kind"] == "publish" && q["pid"] != p["pid"] && results[&(q["pid"].as_u64().unwrap() as u32)]["epoch"].as_u64() == Some(ep)
                    && results[&(q["pid"].as_u64().unwrap() as u32)]["digest"] == r["digest"]
            }) {
                pubs.push((ep, d, p["batch"].clone()));
            } else {
                noops.push((ep, d, p["batch"].clone()));
            }
        } else {
            failed.push((p["batch"].clone(), r["res"].as_str().unwrap().to_string()));
        }
    }
    pubs.sort_by_key(|x| x.0);
    for (ep, d, batch) in pubs.iter() {
        ctx.roots.push(*d);
        for p in batch.as_array().unwrap() {
            *ctx.versions.entry(p[0].as_str().unwrap().to_string()).or_insert(0) += 1;
        }
        tr.emit(json!({"ev": "cpublish", "batch": batch, "res": "ok", "epoch": ep, "root": rid(d)}));
    }
    for (ep, d, batch) in noops.iter() {
        tr.emit(json!({"ev": "cpublish", "batch": batch, "res": "noop", "epoch": ep, "root": rid(d)}));
    }
    for (batch, res) in failed.iter() {
        tr.emit(json!({"ev": "cpublish", "batch": batch, "res": if res == "panic" { "panic" } else { "err" }, "epoch": 0, "root": "-"}));
    }
    // the published digests are not extended by no-op publishes (a no-op at a later epoch than recorded is impossible)
    for p in procs.iter() {
        let kind = p["kind"].as_str().unwrap();
        if kind == "publish" {
            continue;
        }
        let pid = p["pid"].as_u64().unwrap() as u32;
        let r = &results[&pid];
        let root = r["digest"].as_str().map(|h| h[..12].to_string()).unwrap_or("-".into());
        match kind {
            "epoch_hash" => tr.emit(json!({"ev": "ranswer", "kind": "epoch_hash", "res": r["res"], "epoch": r["epoch"].as_u64().unwrap_or(0), "root": root})),
            "lookup" => {
                let out = if r["res"] == "ok" {
                    json!([ctx.conc.value_name(&hex::decode(r["value"].as_str().unwrap()).unwrap()), r["version"], r["vepoch"]])
                } else {
                    json!([])
                };
                tr.emit(json!({"ev": "ranswer", "kind": "lookup", "label": p["label"], "res": r["res"], "epoch": r["epoch"].as_u64().unwrap_or(0), "root": root, "out": out}));
            }
            "history" => {
                let out: Vec<Value> = if r["res"] == "ok" {
                    r["list"].as_array().unwrap().iter().map(|x| json!([ctx.conc.value_name(&hex::decode(x[0].as_str().unwrap()).unwrap()), x[1], x[2]])).collect()
                } else {
                    vec![]
                };
                tr.emit(json!({"ev": "ranswer", "kind": "history", "label": p["label"], "n": p["n"].as_u64().unwrap_or(0), "mode": "default", "res": r["res"],
                    "epoch": r["epoch"].as_u64().unwrap_or(0), "root": root, "out": out}));
            }
            "audit" => {
                let (s, e) = (p["s"].as_u64().unwrap(), p["e"].as_u64().unwrap());
                if r["res"] == "proof" {
                    let bytes = hex::decode(r["proof"].as_str().unwrap()).unwrap();
                    let msg: akd::proto::specs::types::AppendOnlyProof = protobuf::Message::parse_from_bytes(&bytes).unwrap();
                    let proof = akd::AppendOnlyProof::try_from(&msg).unwrap();
                    let cur = ctx.roots.len() as u64 - 1;
                    if e > cur {
                        tr.emit(json!({"ev": "ranswer", "kind": "audit", "s": s, "e": e, "res": "served_beyond", "roots": []}));
                    } else {
                        let hashes: Vec<Digest> = (s..=e).map(|i| ctx.roots[i as usize]).collect();
                        let ids: Vec<String> = hashes.iter().map(rid).collect();
                        let ok = akd::auditor::audit_verify::<TC>(hashes, proof).await.is_ok();
                        tr.emit(json!({"ev": "ranswer", "kind": "audit", "s": s, "e": e, "res": if ok {"ok"} else {"rejected"}, "roots": ids}));
                    }
                } else {
                    tr.emit(json!({"ev": "ranswer", "kind": "audit", "s": s, "e": e, "res": "refused", "roots": []}));
                }
            }
            _ => {}
        }
    }
    // final state: committed leaves + sweep, and no transaction left open
    let cur = ctx.roots.len() as u64 - 1;
    let (refroot, leaves) = ctx.leaves_and_refroot(cur).await;
    tr.emit(json!({"ev": "final_leaves", "epoch": cur, "root_ok": refroot == Some(ctx.roots[cur as usize]), "leaves": leaves,
        "txn_open": ctx.manager.is_transaction_active()}));
    ctx.sweep(tr).await;
    proto_events
}

pub fn main_conc(args: &[String]) {
    let input = arg_val(args, "--in").expect("--in");
    let out = arg_val(args, "--out").expect("--out");
    let threads: usize = arg_val(args, "--threads").map(|s| s.parse().unwrap()).unwrap_or(8);
    let behaviours = read_ndjson(&input);
    crate::hookdb::install_sched_hook();
    crate::hookdb::install_trace_hook();
    let force_proto = args.iter().any(|a| a == "--proto");
    let behaviours: Vec<Value> = behaviours
        .into_iter()
        .map(|mut b| {
            if force_proto {
                b["proto"] = json!(true);
            }
            b
        })
        .collect();
    let (n, total) = crate::dirdrv::run_parallel(behaviours, &out, threads, |b| async move {
        if b["mt"].as_bool().unwrap_or(false) {
            // truly parallel run: own multi-thread runtime, gate open, tasks race freely
            return tokio::task::spawn_blocking(move || {
                let rt = tokio::runtime::Builder::new_multi_thread().worker_threads(4).enable_all().build().unwrap();
                rt.block_on(async move {
                    let mut tr = Tracer::new();
                    match b["cfg"].as_str().unwrap_or("wa") {
                        "wa" => run_conc::<Wa>(&b, &mut tr).await,
                        _ => run_conc::<Exp>(&b, &mut tr).await,
                    }
                    tr
                })
            })
            .await
            .unwrap();
        }
        let mut tr = Tracer::new();
        match b["cfg"].as_str().unwrap_or("wa") {
            "wa" => run_conc::<Wa>(&b, &mut tr).await,
            _ => run_conc::<Exp>(&b, &mut tr).await,
        }
        tr
    });
    println!("{}", json!({"behaviours": n, "events": total}));
}
