CONSTANTS
  Publishers = {0, 1, 2, 3, 4, 5, 6, 7, 8, 9}
  Readers = {}
  RemoteReaders = {}
  LockFreeReaders = {}
  Keys <- OnlyRoot
  HasCache = FALSE
  MaxFaults = 0
  InitEpochs = 0
  ReaderLag = 0
  RecheckEpochAfterBegin = TRUE
  FlagHeldThroughDbWrite = TRUE
  RootHashBeforeCommit = TRUE
  PrevEpochChecked = TRUE
  ReadersSeePendingEpoch = FALSE
  RollbackReleasesFlag = TRUE
INIT TInit
NEXT TNext
CONSTRAINT Track
INVARIANT TraceInv
POSTCONDITION Accepted
CHECK_DEADLOCK FALSE
