CONSTANTS
  Labels = {"a", "b", "c"}
  Values = {"x", "y"}
  MaxEpoch = 4
  MaxBatch = 2
  MaxPerEpoch = 2
  Export = TRUE
INIT MCInit
NEXT MCNext
VIEW View
INVARIANTS TypeOK EpochCountsEffective LeafShape LookupSoundOnHonest
PROPERTY CommittedOnlyGrows
CHECK_DEADLOCK FALSE
