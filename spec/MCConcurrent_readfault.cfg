CONSTANTS
  Publishers = {"A"}
  Readers = {"r", "s"}
  RemoteReaders = {"s"}
  Keys <- KeysSeq
  HasCache = TRUE
  MaxFaults = 1
  InitEpochs = 2
  ReaderLag = 1
  RecheckEpochAfterBegin = TRUE
  FlagHeldThroughDbWrite = TRUE
  RootHashBeforeCommit = TRUE
  PrevEpochChecked = TRUE
INIT Init
NEXT Next
INVARIANTS AnswersArePublished AtomicFailure
CHECK_DEADLOCK FALSE
