"""Trie-level checks decided with AkdTrie.tla / TraceTrie.tla: C05 (membership / non-membership
soundness and completeness, adversarial prover), and the trie-level parts of C01, C04, C14 that other
checks pull in through trie_stage()."""
import json, os, random
from vlib import *

STRETCHES = [[0, 1, 2], [0, 8, 16], [0, 7, 255], [0, 9, 200], [0, 127, 128], [0, 254, 255], [0, 15, 17], [0, 63, 64],
             [0, 31, 33], [0, 248, 249]]
STRETCHES4 = [[0, 1, 2, 3], [0, 8, 16, 24], [0, 7, 9, 255], [0, 63, 64, 65], [0, 253, 254, 255], [0, 120, 128, 136]]

def stretch_for(i, seed, d=3):
    lst = STRETCHES if d == 3 else STRETCHES4
    if i % (len(lst) + 2) < len(lst):
        pos = lst[i % (len(lst) + 2)]
    else:
        rnd = random.Random(seed * 100003 + i)
        pos = [0] + sorted(rnd.sample(range(1, 256), d - 1))
    return {"pos": pos, "filler": [0, 1, 2, 3 + seed % 97, 1000 + i][i % 5]}

def export_trees(chk, cfg, workers=8, timeout=1500):
    res = run_tlc_mc("MCTrie", cfg, chk.wd, workers=workers, timeout=timeout, heap="8g")
    if res["violation"]:
        chk.violation(f"TLC: specification-level violation in {cfg}: {res['violation'][:300]}", {"tlc_output": res["out"]})
    chk.add_mc(res)
    trees = []
    for js in res["export"].get("TREE", []):
        leaves = json.loads(js)
        trees.append(sorted([[l["label"], l["value"][1], l["ep"]] for l in leaves]))
    log(f"[mc] {cfg}: {res['distinct']} distinct states, {len(trees)} trees exported, {res['wall']:.0f}s")
    return trees

def run_trie_harness(chk, behaviours, name="trie"):
    binp = build_harness()
    inp = f"{chk.wd}/{name}_behaviours.ndjson"
    with open(inp, "w") as f:
        for b in behaviours:
            f.write(json.dumps(b) + "\n")
    outd = f"{chk.wd}/{name}_traces"
    rc, out, err = sh(f"{binp} trie --in {inp} --out {outd} --threads {min(NCPU, 16)}", timeout=3000)
    if rc != 0:
        raise ToolError(f"harness trie failed rc={rc}: {err[-2000:]}")
    info = json.loads(out.strip().splitlines()[-1])
    chk.cov.setdefault("events", 0)
    chk.cov["events"] += info["events"]
    return sorted(glob.glob(f"{outd}/trace_*.ndjson")), info

def handle_trie_validation(chk, results, label="trie: "):
    """Like Check.handle_validation but behaviours are delimited by `tree` events."""
    for r in results:
        if r["error"] and r["accepted"] is None and r["rejected"] is None:
            raise ToolError(f"TLC error validating {r['trace']}: {r['error']}  (see {r['out']})")
        lines = open(r["trace"]).read().splitlines()
        ntrees = sum(1 for l in lines if '"ev":"tree"' in l)
        if r["accepted"] is not None:
            chk.cov["traces_validated_against_impl"] += ntrees
        elif r["rejected"] is not None:
            lineno, ev = r["rejected"]
            start = lineno - 1
            while start > 0 and '"ev":"tree"' not in lines[start]:
                start -= 1
            chk.cov["traces_validated_against_impl"] += sum(1 for l in lines[:start] if '"ev":"tree"' in l)
            tree_ev = json.loads(lines[start]) if lines else {}
            chk.violation(f"{label}trace rejected by TLC at line {lineno}: {ev[:400]}",
                          {"trace_file": r["trace"], "line": lineno, "tree": tree_ev,
                           "first_unmatched_event": json.loads(ev) if ev.startswith("{") else ev})
        else:
            raise ToolError(f"TLC gave no verdict for {r['trace']} (see {r['out']})")

def trie_stage(chk, mc_cfg, do, cfgs=("wa", "exp"), pars=("disabled",), splits=False, modes=("dir",), d=3, trace_cfg="TraceTrie.cfg",
               max_trees=None, name="trie"):
    trees = export_trees(chk, mc_cfg)
    if max_trees and len(trees) > max_trees:
        rnd = random.Random(chk.seed)
        trees = rnd.sample(trees, max_trees)
    bs = []
    for i, assign in enumerate(trees):
        b = {"id": i + 1, "cfg": cfgs[i % len(cfgs)], "stretch": stretch_for(i, chk.seed, d), "assign": assign,
             "mode": modes[i % len(modes)], "par": pars[i % len(pars)], "do": do, "cached": (i % 3 == 2)}
        if splits and assign:
            # insert each epoch's batch as two sub-batches, second first
            rnd = random.Random(chk.seed * 7919 + i)
            split = []
            maxep = max(a[2] for a in assign)
            for e in range(1, maxep + 1):
                idx = [k for k, a in enumerate(assign) if a[2] == e]
                rnd.shuffle(idx)
                cut = rnd.randint(0, len(idx))
                for part in (idx[:cut], idx[cut:]):
                    if part:
                        split.append(part)
            b["split"] = split
        bs.append(b)
    traces, info = run_trie_harness(chk, bs, name=name)
    chk.cov["evaluations"] += info["behaviours"]
    results = validate_traces("TraceTrie", trace_cfg, traces, chk.wd)
    handle_trie_validation(chk, results)
    return traces

def c05():
    chk = Check("C05", "model_checking")
    if chk.tier == "thorough":
        traces = trie_stage(chk, "MCTrie_export5.cfg", ["tree", "mem", "nonmem"])
    else:
        traces = trie_stage(chk, "MCTrie_export4.cfg", ["tree", "mem", "nonmem"])
    # count candidates and the known degenerate case
    tried = 0
    nontrivial = set()
    empty_tree_unprovable = False
    for t in traces:
        cur = None
        for line in open(t):
            ev = json.loads(line)
            if ev["ev"] == "tree":
                cur = ev
            elif ev["ev"] in ("mem", "nonmem"):
                tried += ev["tried"]
                if cur is not None and len(cur["assign"]) >= 2:
                    nontrivial.add((json.dumps(cur["assign"]), cur["cfg"], json.dumps(ev.get("q", "mem"))))
                if ev["ev"] == "nonmem" and cur is not None and len(cur["assign"]) == 0 and not ev["honest"]:
                    empty_tree_unprovable = True
                if len(chk.cov["samples"]) < 3 and ev["ev"] == "nonmem" and ev["accepted"]:
                    chk.cov["samples"].append({"tree": cur["assign"], "stretch": cur["stretch"], "event": ev})
    # the degenerate case: model says no absence proof verifies on the empty tree; the real code agrees
    res = run_tlc_mc("MCTrie", "MCTrie_emptytree.cfg", chk.wd, workers=2, timeout=300)
    chk.add_mc(res)
    known = [k for k in load_known() if k.get("property") == "C05" and k.get("status") == "open"]
    if res["violation"] and empty_tree_unprovable:
        if any(k.get("match", {}).get("leaves") == 0 for k in known):
            chk.known_finding("no non-membership proof verifies against the root of the EMPTY tree (leaf set {}): the empty root's value is not the hash of two empty children")
        else:
            chk.violation("non-membership proofs do not verify on the empty tree", {"assign": [], "note": "NonMemComplete fails for leaves = {}"})
    chk.cov["candidate_proofs_tried"] = tried
    chk.cov["distinct_nontrivial"] = len(nontrivial)
    chk.cov["rule"] = ("every leaf subset of the depth-3 universe within the bound (TLC-enumerated) is built as a real tree with "
        "Azks::batch_insert_nodes over stretched 256-bit labels; for every leaf slot the honest generators' proofs and every "
        "adversarial candidate (each tree node as claimed anchor x {as is, children swapped, child replaced, hash replaced, sibling "
        "replaced, direction flipped, other node's path, other longest_prefix}) are given to akd's verify_membership / "
        "verify_nonmembership; TLC requires the set of accepted candidates to equal the specification's and none to prove a false "
        "statement. Non-trivial = distinct (tree with >= 2 leaves, configuration, query) triples.")
    chk.cov["exhaustive"] = True
    chk.assumptions += ["hash collision resistance (symbolic hash terms)", "depth-3 label universe stretched to 256 bits; bounds of the MCTrie_*.cfg named in checker_cmd",
                        "known finding: the empty tree (no absence proof verifies), see known_findings.jsonl"]
    return chk.finish()

TABLE = {"C05": c05}
