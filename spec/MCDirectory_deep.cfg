CONSTANTS
  Labels = {"a", "b", "c"}
  Values = {"x", "y", "z"}
  MaxEpoch = 20
  MaxBatch = 2
  MaxPerEpoch = 2
  Export = TRUE
  WithOther = FALSE
INIT MCInit
NEXT MCNext
VIEW View
INVARIANTS TypeOK EpochCountsEffective LookupSoundOnHonest
CHECK_DEADLOCK FALSE
