CONSTANTS
  LawDepth = 6
  TripleDepth = 4
  SetDepth = 3
  SetSize = 4
INIT Init
NEXT Next
INVARIANT Inv
CHECK_DEADLOCK FALSE
