CONSTANTS
  Publishers = {"A", "B"}
  Readers = {}
  RemoteReaders = {}
  Keys <- KeysSeq
  HasCache = FALSE
  MaxFaults = 0
  InitEpochs = 0
  ReaderLag = 0
  RecheckEpochAfterBegin = TRUE
  FlagHeldThroughDbWrite = TRUE
  RootHashBeforeCommit = TRUE
  PrevEpochChecked = TRUE
INIT Init
NEXT Next
INVARIANTS EpochsDistinct ReturnedPairsStayPublished FinalEqualsSerial NoTxnLeftOpen
CHECK_DEADLOCK FALSE
