CONSTANTS
  Publishers = {"A"}
  Readers = {}
  RemoteReaders = {}
  Keys <- KeysSeq
  HasCache = TRUE
  MaxFaults = 1
  InitEpochs = 1
  ReaderLag = 0
  RecheckEpochAfterBegin = TRUE
  FlagHeldThroughDbWrite = TRUE
  RootHashBeforeCommit = TRUE
  PrevEpochChecked = TRUE
INIT Init
NEXT Next
INVARIANTS AtomicFailure NoTxnLeftOpen ReturnedPairsStayPublished
CHECK_DEADLOCK FALSE
