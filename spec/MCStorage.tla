----------------------------- MODULE MCStorage -----------------------------
(* Bounded model of AkdStorage; exports every explored transition for replay *)
(* on a real StorageManager.                                                  *)
EXTENDS AkdStorage, Json

CONSTANTS Export, MaxSteps, WithReads, SplitReads, WithExt

VARIABLES path, steps

mvars == <<svars, path, steps>>

Emit(act) == Export => PrintT(<<"REPLAY", ToJson([path |-> path, act |-> act])>>)

Step(act) == /\ steps < MaxSteps
             /\ Emit(act)
             /\ path' = Append(path, act)
             /\ steps' = steps + 1

(* writes keep user data well-formed with respect to everything committed or pending *)
WfWrite(R) == OneP(R) /\ WellFormed(db \cup txnMods \cup R)

SetSeq(R) == IF Cardinality(R) = 1 THEN << CHOOSE r \in R : TRUE >>
             ELSE LET a == CHOOSE r \in R : TRUE IN << a, CHOOSE r \in R : r # a >>

MCInit == Init /\ path = <<>> /\ steps = 0

MCNext ==
  \/ \E r \in AllRecs : \E res \in {"ok", "err"} :
        WfWrite({r}) /\ SetRecs({r}, res) /\ Step([op |-> "set", recs |-> <<r>>])
  \/ \E a \in VsRecs : \E b \in AzksRecs \cup VsRecs : \E res \in {"ok", "err"} :
        a # b /\ WfWrite({a, b}) /\ SetRecs({a, b}, res) /\ Step([op |-> "batch_set", recs |-> SetSeq({a, b})])
  \/ \E res \in BOOLEAN : Begin(res) /\ Step([op |-> "begin"])
  \/ \E res \in {"ok", "err"} : Commit(res) /\ Step([op |-> "commit"])
  \/ \E res \in {"ok", "err"} : Rollback(res) /\ Step([op |-> "rollback"])
  \/ \E u \in Users, e \in Epochs, res \in {"ok", "err"} : Tombstone(u, e, res) /\ Step([op |-> "tombstone", user |-> u, epoch |-> e])
  \/ RejectNext /\ Step([op |-> "reject_next"])
  \/ (HasCache /\ Flush /\ Step([op |-> "flush"]))
  \/ (HasCache /\ WithExt /\ ~txnActive /\ \E r \in AzksRecs \cup NodeRecs : ExtWrite({r}) /\ Step([op |-> "ext_set", recs |-> <<r>>]))
  \/ (HasCache /\ WithReads /\ \E k \in AllKeys : ReadFill({k}) /\ Step([op |-> "get", key |-> k]))
  \/ (HasCache /\ SplitReads /\ Cardinality(inflight) < 2 /\ \E k \in AllKeys : GetIssue(k) /\ UNCHANGED <<path, steps>>)
  \/ (HasCache /\ SplitReads /\ \E f \in inflight : GetComplete(f) /\ UNCHANGED <<path, steps>>)
  \/ (HasCache /\ \E b \in BOOLEAN : b # canClean /\ SetClean(b) /\ Step([op |-> "clean", on |-> b]))
  \/ (HasCache /\ Tick /\ cacheMap' # cacheMap /\ Step([op |-> "sleep"]))
  \/ (HasCache /\ Pressure /\ cacheMap' # cacheMap /\ UNCHANGED <<path, steps>>)

View == svars
=============================================================================
