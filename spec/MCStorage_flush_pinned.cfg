CONSTANTS
  Users = {}
  Epochs = {1}
  Versions = {1, 2}
  Values = {"p"}
  NodeNames = {"n1"}
  AzksEpochs = {1, 2}
  HasCache = TRUE
  CachePutBeforeDbWrite = FALSE
  BulkVersionsUsesEpoch = FALSE
  FillPolicy = "if_same_generation"
  FlushIgnoresCleanFlag = FALSE
  FlushBumpsGeneration = TRUE
  Export = FALSE
  MaxSteps = 6
  WithReads = TRUE
  SplitReads = FALSE
  WithExt = TRUE
INIT MCInit
NEXT MCNext
VIEW View
INVARIANTS TypeOK CacheTransparent
CHECK_DEADLOCK FALSE
