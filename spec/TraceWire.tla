------------------------------ MODULE TraceWire ------------------------------
EXTENDS AkdWire, Json, IOUtils, TLC
VARIABLE pos
Rec == ndJsonDeserialize(IOEnv.TRACE)
Ev == Rec[pos]
IsEv(e) == pos <= Len(Rec) /\ Ev.ev = e /\ pos' = pos + 1
TInit == pos = 1 /\ TLCSet(1, 1)
TRow == IsEv("vrf_row") /\ Ev.accepted = RowAccepted(Ev.alter)
TDet == /\ IsEv("vrf_det")
        /\ Ev.deterministic /\ Ev.proof_agrees /\ Ev.bulk_agrees /\ Ev.len256
        /\ Ev.verifies /\ ~Ev.verifies_under_other_key /\ Ev.key_dependent /\ Ev.commitment_key_dependent
        /\ ~Ev.collides_with_other_input /\ Ev.flip_yields_other_label = 0
TSens == IsEv("vrf_sens") /\ Ev.unchanged = 0 /\ Ev.tried > 0
TMut == IsEv("wire_mut") /\ DecodeOK(Ev.class, Ev.res)
TFuzz == IsEv("wire_fuzz") /\ FuzzOK(Ev.res)
TBlob == IsEv("blob") /\ Ev.roundtrip
TNext == TRow \/ TDet \/ TSens \/ TMut \/ TFuzz \/ TBlob
Track == TLCSet(1, IF pos > TLCGet(1) THEN pos ELSE TLCGet(1))
Accepted ==
  LET reached == TLCGet(1) IN
  IF reached = Len(Rec) + 1
    THEN PrintT(<<"TRACE-ACCEPTED", Len(Rec)>>)
    ELSE /\ PrintT(<<"TRACE-REJECTED", reached, ToJson(Rec[reached])>>)
         /\ FALSE
=============================================================================
