#!/usr/bin/env python3
"""bin/selftest.py [--only <substring>]: applies every stored breakage (reverted repairs in seeded/fix-reverts, seeded
changes in seeded/<id>/) to /repo in turn, runs the quick checks named for it, restores /repo, and writes
seeded/RESULTS.md. A breakage counts as caught when at least one named check prints a VIOLATION line.
Never leaves /repo modified (git checkout at the end of every case)."""
import json, os, subprocess, sys, glob, time

REVERTS = {
    "79238dd": ["C05", "C06", "C07"], "e5830d7": ["C05"], "ee30611": ["C09"], "c04d532": ["C16", "C10"], "ca6c5cb": ["C10"],
    "18a7051": ["C13"], "dda5d32": ["C13"], "703fb0a": ["C15"], "f8af41b": ["C15"], "f96eb56": ["C12"], "5436b88": ["C16", "C13"], "d3b0444": ["C13"],
}

def sh(cmd, **kw):
    return subprocess.run(cmd, shell=True, capture_output=True, text=True, **kw)

def run_case(name, patch, checks):
    if sh("git -C /repo diff --quiet").returncode != 0:
        return name, "SKIPPED (/repo dirty)", []
    if sh(f"git -C /repo apply {patch}").returncode != 0:
        return name, "patch does not apply at the current HEAD", []
    rows = []
    try:
        for c in checks:
            t0 = time.time()
            p = sh(f"cd /verif && VERIF_TIER=quick bin/check {c}")
            viol = [l for l in p.stdout.splitlines() if l.startswith("VIOLATION")]
            rows.append((c, p.returncode, len(viol), round(time.time() - t0)))
            if viol:
                break
    finally:
        sh("git -C /repo checkout -- . && git -C /repo clean -fdq -- akd akd_core")
    caught = [r for r in rows if r[2] > 0]
    return name, ("caught by " + caught[0][0] if caught else "MISSED"), rows

def main():
    only = sys.argv[sys.argv.index("--only") + 1] if "--only" in sys.argv else ""
    cases = []
    for c, checks in REVERTS.items():
        cases.append((f"revert of fix {c}", f"/verif/seeded/fix-reverts/revert_{c}.diff", checks))
    for d in sorted(glob.glob("/verif/seeded/C*")):
        meta = json.load(open(f"{d}/meta.json"))
        patch = f"{d}/patch_rebased.diff" if os.path.exists(f"{d}/patch_rebased.diff") else f"{d}/patch.diff"
        cases.append((os.path.basename(d), patch, meta["checks_run"]))
    out = ["# Self-test: stored breakages against the quick checks", "",
           "| Breakage | Result | Checks run (exit code, VIOLATION lines, seconds) |", "|---|---|---|"]
    for name, patch, checks in cases:
        if only and only not in name:
            continue
        n, res, rows = run_case(name, patch, checks)
        line = f"| {n} | {res} | " + "; ".join(f"{c}: rc={rc}, {v} violations, {s}s" for c, rc, v, s in rows) + " |"
        print(line, flush=True)
        out.append(line)
    if not only:
        open("/verif/seeded/RESULTS.md", "w").write("\n".join(out) + "\n")

main()
