//! Shared plumbing: configuration dispatch, abstract->concrete maps, trace writer.

use serde_json::Value;
use std::collections::HashMap;
use std::io::Write;

pub type Wa = akd::WhatsAppV1Configuration;
pub type Exp = akd::ExperimentalConfiguration<akd::ExampleLabel>;

/// Dispatch a generic async fn over the two hashing configurations.
#[macro_export]
macro_rules! with_cfg {
    ($cfg:expr, $f:ident, $($arg:expr),*) => {
        match $cfg {
            "wa" => $f::<$crate::common::Wa>($($arg),*).await,
            "exp" => $f::<$crate::common::Exp>($($arg),*).await,
            other => panic!("unknown cfg {other}"),
        }
    };
}

/// ndjson trace buffer (events are kept in memory and written by the owner)
pub struct Tracer {
    pub buf: Vec<String>,
}

impl Tracer {
    pub fn new() -> Self {
        Tracer { buf: Vec::new() }
    }
    pub fn emit(&mut self, v: Value) {
        self.buf.push(serde_json::to_string(&v).unwrap());
    }
    pub fn len(&self) -> usize {
        self.buf.len()
    }
}

pub fn write_lines(path: &str, lines: &[String]) {
    let f = std::fs::File::create(path).unwrap_or_else(|e| panic!("create {path}: {e}"));
    let mut out = std::io::BufWriter::new(f);
    for l in lines {
        out.write_all(l.as_bytes()).unwrap();
        out.write_all(b"\n").unwrap();
    }
    out.flush().unwrap();
}

/// Abstract label / value names -> bytes. Variant selects how nasty the bytes are.
#[derive(Clone)]
pub struct Conc {
    pub variant: u64,
    labels: HashMap<String, Vec<u8>>,
    values: HashMap<String, Vec<u8>>,
}

impl Conc {
    pub fn new(variant: u64) -> Self {
        Conc {
            variant,
            labels: HashMap::new(),
            values: HashMap::new(),
        }
    }

    /// Labels: variant 0 = plain ascii; variant 1 = "a" is the empty label, "b" is a 1000-byte label,
    /// "c" a prefix of "b"; variant 2 = prefix-related short labels with NUL bytes; other = seeded bytes.
    pub fn label(&mut self, name: &str) -> akd::AkdLabel {
        let variant = self.variant;
        let b = self
            .labels
            .entry(name.to_string())
            .or_insert_with(|| match variant {
                0 => format!("label-{name}").into_bytes(),
                1 => match name {
                    "a" => vec![],
                    "b" => vec![0xABu8; 1000],
                    "c" => vec![0xABu8; 999],
                    _ => format!("\u{0}{name}").into_bytes(),
                },
                2 => match name {
                    "a" => vec![0u8],
                    "b" => vec![0u8, 0u8],
                    "c" => vec![0u8, 1u8],
                    _ => format!("\u{0}\u{0}{name}").into_bytes(),
                },
                v => {
                    let mut h = blake3::Hasher::new();
                    h.update(&v.to_be_bytes());
                    h.update(name.as_bytes());
                    let d = h.finalize();
                    let n = 1 + (d.as_bytes()[0] as usize % 40);
                    let mut out = Vec::new();
                    while out.len() < n {
                        out.extend_from_slice(d.as_bytes());
                    }
                    out.truncate(n);
                    out
                }
            })
            .clone();
        akd::AkdLabel(b)
    }

    /// Values: "e" is always the empty value (akd's TOMBSTONE).
    pub fn value(&mut self, name: &str) -> akd::AkdValue {
        let variant = self.variant;
        let b = self
            .values
            .entry(name.to_string())
            .or_insert_with(|| {
                if name == "e" {
                    return vec![];
                }
                match variant {
                    0 => format!("value-{name}").into_bytes(),
                    1 => match name {
                        "x" => vec![0u8],
                        "y" => vec![0x5Au8; 1000],
                        _ => format!("{name}{name}").into_bytes(),
                    },
                    2 => match name {
                        "x" => vec![0u8, 0u8],
                        "y" => vec![0u8, 0u8, 0u8],
                        _ => format!("\u{0}{name}").into_bytes(),
                    },
                    v => {
                        let mut h = blake3::Hasher::new();
                        h.update(b"value");
                        h.update(&v.to_be_bytes());
                        h.update(name.as_bytes());
                        let d = h.finalize();
                        let n = 1 + (d.as_bytes()[1] as usize % 64);
                        let mut out = Vec::new();
                        while out.len() < n {
                            out.extend_from_slice(d.as_bytes());
                        }
                        out.truncate(n);
                        out
                    }
                }
            })
            .clone();
        akd::AkdValue(b)
    }

    pub fn value_name(&self, bytes: &[u8]) -> String {
        if bytes.is_empty() {
            return "e".to_string();
        }
        for (k, v) in self.values.iter() {
            if v.as_slice() == bytes {
                return k.clone();
            }
        }
        "?".to_string()
    }
}

pub fn read_ndjson(path: &str) -> Vec<Value> {
    let s = std::fs::read_to_string(path).unwrap_or_else(|e| panic!("read {path}: {e}"));
    s.lines()
        .filter(|l| !l.trim().is_empty())
        .map(|l| serde_json::from_str(l).unwrap_or_else(|e| panic!("bad json line {l}: {e}")))
        .collect()
}

pub fn arg_val(args: &[String], name: &str) -> Option<String> {
    args.iter()
        .position(|a| a == name)
        .and_then(|i| args.get(i + 1).cloned())
}

pub fn short(d: &[u8]) -> String {
    hex::encode(&d[..6])
}
