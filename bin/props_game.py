"""Proof-game properties decided with AkdProofGame.tla / AkdMarkers.tla: C06 (lookup serves only the latest version),
C07 (history cannot hide / reorder / invent / misdate), C08 (lookup and history verifiers agree under one root)."""
import json, os, random, itertools
from vlib import *
import props_dir

def game_mc(chk, cfg, expect_violation=False):
    res = run_tlc_mc("MCDirectory", cfg, chk.wd, workers=12, timeout=3000, heap="8g")
    chk.add_mc(res)
    if expect_violation:
        return bool(res["violation"])
    if res["violation"]:
        chk.violation(f"TLC: specification-level violation in {cfg}: {res['violation'][:300]}", {"tlc_output": res["out"]})
    log(f"[mc] {cfg}: {res['distinct']} distinct states")
    return False

def forge_dir_stage(chk, kinds, nb):
    exported = props_dir.export_behaviours(chk, ["MCDirectory_quick.cfg", "MCDirectory_empty.cfg"])
    rnd = random.Random(chk.seed)
    rich = [x for x in exported if sum(1 for st in x[2] if st["op"] == "publish") >= 2]
    sample = rnd.sample(rich, min(nb, len(rich)))
    bs = props_dir.make_behaviours(chk, sample, kinds + ["lookup"])
    for b in bs:
        b["sweep"] = "every"
    traces = props_dir.run_dir_harness(chk, bs)
    results = validate_traces("TraceDirectory", "TraceDirectory.cfg", traces, chk.wd)
    chk.handle_validation(results)
    return traces

def c06():
    chk = Check("C06", "model_checking")
    game_mc(chk, "MCDirectory_game_lookup.cfg")
    traces = forge_dir_stage(chk, ["forge_lookup"], 350 if chk.tier == "quick" else 6000)
    counts = {}
    seen = set()
    for evs in props_dir.scan_behaviours(traces):
        for e in evs:
            if e["ev"] in ("forge_lookup", "forge_mix", "forge_stale"):
                k = e["ev"] + ":" + e["verdict"]
                counts[k] = counts.get(k, 0) + 1
                if e["ev"] == "forge_lookup" and e["claim"][1] >= 1:
                    seen.add((json.dumps([x for x in evs if x["ev"] == "publish"][-3:]), json.dumps(e["claim"]), e["label"], evs[0]["cfg"]))
        if len(chk.cov["samples"]) < 2:
            fl = [e for e in evs if e["ev"] == "forge_lookup"]
            if fl:
                chk.cov["samples"].append({"history": [x["batch"] for x in evs if x["ev"] == "publish"], "forged": fl[:6]})
    chk.cov["forged_proofs_by_verdict"] = counts
    chk.cov["distinct_nontrivial"] = len(seen)
    chk.cov["exhaustive"] = False
    chk.cov["rule"] = ("TLC proves LookupOnlyLatest on every reachable honest state: no claim (value, version <= epoch+1, epoch) other than the latest "
        "satisfies the verifier's conditions. On sampled TLC-generated histories the adversarial server (holding key and tree) assembles, after every step, "
        "a lookup proof for EVERY claim of the grid versions 1..latest+1 x values x epochs out of real paths, VRF proofs and nonces, plus proofs with one "
        "sub-proof taken from another label, a marker for another version, a version beyond the epoch, and honest proofs of earlier epochs against the "
        "current root; akd's lookup_verify verdict must equal the specification's and an accepted claim must be the latest (value, version, epoch). "
        "Non-trivial = distinct (history, label, claim, configuration).")
    chk.assumptions += ["soundness of membership / non-membership proofs (C05) and VRF binding (C18) carry the leaf-set abstraction",
                        "the marker gap of C08 needs a dishonest tree and is handled there"]
    return chk.finish()

def c07():
    chk = Check("C07", "model_checking")
    game_mc(chk, "MCDirectory_game_quick.cfg" if chk.tier == "quick" else "MCDirectory_game.cfg")
    refuted = game_mc(chk, "MCDirectory_game_finding.cfg", expect_violation=True)
    traces = forge_dir_stage(chk, ["forge_history"], 250 if chk.tier == "quick" else 4000)
    # trees that retire a version late or never
    dts = late_stale_trees(chk)
    dtraces = run_forge_harness(chk, dts, name="latestale")
    results = validate_traces("TraceDirectory", "TraceDirectory.cfg", dtraces, chk.wd)
    chk.handle_validation(results, label="late/missing stale marker: ")
    counts = {}
    seen = set()
    probe_accepted = 0
    late_accept = 0
    for evs in list(props_dir.scan_behaviours(traces)):
        for e in evs:
            if e["ev"] == "forge_history":
                k = e["verdict"] + ("/" + e["tag"] if e.get("tag") else "")
                counts[k] = counts.get(k, 0) + 1
                seen.add((json.dumps([x for x in evs if x["ev"] == "publish"][-3:]), json.dumps(e["claims"]), e["n"], e["mode"], evs[0]["cfg"]))
                if e.get("tag") == "unbound_epoch_probe" and e["verdict"] == "accepted":
                    probe_accepted += 1
        if len(chk.cov["samples"]) < 2:
            fl = [e for e in evs if e["ev"] == "forge_history"]
            if fl:
                chk.cov["samples"].append({"history": [x["batch"] for x in evs if x["ev"] == "publish"], "forged": fl[:5]})
    for t in dtraces:
        cur = None
        for line in open(t):
            e = json.loads(line)
            if e["ev"] == "dtree":
                cur = e
            elif e["ev"] == "forge_history" and e["verdict"] == "accepted":
                vs = [c[1] for c in e["claims"]]
                if cur and cur.get("broken") in vs:
                    late_accept += 1
    if late_accept:
        chk.violation("history verification accepted a list containing the version whose predecessor was not retired in the epoch of its replacement", {"count": late_accept})
    known = [k for k in load_known() if k.get("property") == "C07" and k.get("status") == "open"]
    if probe_accepted and refuted:
        if any(k.get("id") == "tombstoned-v1-epoch-unbound" for k in known):
            chk.known_finding("with AllowMissingValues, version 1 presented as a tombstone verifies with a shifted epoch (nothing binds the epoch of a tombstoned first version)")
        else:
            chk.violation("AllowMissingValues accepts a misdated tombstoned version 1", {"accepted_probes": probe_accepted})
    chk.cov["forged_histories_by_verdict"] = counts
    chk.cov["distinct_nontrivial"] = len(seen)
    chk.cov["exhaustive"] = False
    chk.cov["rule"] = ("TLC proves HistoryOnlyTruth on every reachable honest state for EVERY list of consecutive versions with any values/epochs of the "
        "universe, every parameter and both verification modes (with the one exemption recorded as known finding, whose un-exempted form TLC refutes). "
        "On sampled TLC-generated histories the adversarial server assembles, after every step, history proofs for: the true list under every parameter, "
        "newest-k / oldest-k dropped (markers recomputed), inner entry removed, duplicated, swapped, value / epoch altered, tombstone substituted, an "
        "invented newer version, marker lists one proof short / long - in both verification modes; plus trees whose stale marker is missing or late; "
        "akd's key_history_verify verdict must equal the specification's. Non-trivial = distinct (history, claims, parameter, mode, configuration).")
    chk.assumptions += ["soundness of membership / non-membership proofs (C05) and VRF binding (C18) carry the leaf-set abstraction"]
    return chk.finish()

def run_forge_harness(chk, behaviours, name="forge"):
    binp = build_harness()
    inp = f"{chk.wd}/{name}_behaviours.ndjson"
    with open(inp, "w") as f:
        for b in behaviours:
            f.write(json.dumps(b) + "\n")
    outd = f"{chk.wd}/{name}_traces"
    rc, out, err = sh(f"{binp} forge --in {inp} --out {outd} --threads {min(NCPU, 16)}", timeout=3000)
    if rc != 0:
        raise ToolError(f"harness forge failed rc={rc}: {err[-2000:]}")
    info = json.loads(out.strip().splitlines()[-1])
    chk.cov["evaluations"] += info["behaviours"]
    chk.cov.setdefault("events", 0)
    chk.cov["events"] += info["events"]
    return sorted(glob.glob(f"{outd}/trace_*.ndjson"))

def pow2floor(v):
    p = 1
    while p * 2 <= v:
        p *= 2
    return p

def honest_leaves(label, n, vals=("x", "y")):
    """leaves of a label with versions 1..n published at epochs 1..n"""
    L = []
    for v in range(1, n + 1):
        L.append([label, "F", v, vals[v % 2], v])
        if v > 1:
            L.append([label, "S", v - 1, "-", v])
    return L

def history_jobs(label, leaves, E, allow_modes=("default",)):
    """every history range [s..m] over the fresh versions present, with the values/epochs the tree holds"""
    fresh = {lf[2]: lf for lf in leaves if lf[0] == label and lf[1] == "F"}
    jobs = []
    for m in sorted(fresh):
        for s in range(1, m + 1):
            if not all(v in fresh for v in range(s, m + 1)):
                continue
            claims = [[fresh[v][3], v, fresh[v][4]] for v in range(m, s - 1, -1)]
            for n in ([0] if s == 1 else []) + [m - s + 1]:
                for mode in allow_modes:
                    jobs.append({"kind": "history", "label": label, "claims": claims, "past": "auto", "future": "auto", "n": n, "mode": mode})
    # ranges with a hole: the missing versions' entries replaced by copies of the nearest newer present one
    present = sorted(fresh)
    for m in present:
        for s in [v for v in present if v < m]:
            if all(v in fresh for v in range(s, m + 1)):
                continue
            claims = []
            for v in range(m, s - 1, -1):
                src = v if v in fresh else min(x for x in present if x > v)
                claims.append([fresh[src][3], src, fresh[src][4]])
            for n in ([0] if s == 1 else []) + [m - s + 1]:
                jobs.append({"kind": "history", "label": label, "claims": claims, "past": "auto", "future": "auto", "n": n, "mode": "default", "tag": "hole_hidden_by_duplicate"})
    return jobs

def late_stale_trees(chk):
    out = []
    for n in (2, 3, 4):
        base = honest_leaves("a", n)
        for v in range(1, n):
            # stale(v) missing, or stamped one epoch late
            missing = [lf for lf in base if not (lf[1] == "S" and lf[2] == v)]
            late = [([lf[0], lf[1], lf[2], lf[3], lf[4] + 1] if (lf[1] == "S" and lf[2] == v) else lf) for lf in base]
            for variant, leaves in (("missing", missing), ("late", late)):
                E = n + 1
                out.append({"id": len(out) + 1, "cfg": ["wa", "exp"][len(out) % 2], "conc": 0, "leaves": leaves, "E": E, "broken": v + 1,
                            "jobs": fill_markers(history_jobs("a", leaves, E, ("default", "allow")), E)})
    return out

def marker_versions_py(s, n, E):
    """transcription used only to fill the marker lists of forged proofs (TLC judges with its own)"""
    SK = [1, 2, 4, 16, 256, 65536, 1 << 32]
    def maxidx(x):
        i = 0
        while i < len(SK) and x >= SK[i]:
            i += 1
        return i - 1
    past = []
    if SK[maxidx(s)] != s:
        past.append(SK[maxidx(s)])
    lg = pow2floor(s)
    if lg != s and (not past or lg != past[-1]):
        past.append(lg)
    for i in range(s.bit_length() - 1, -1, -1):
        if s & (1 << i):
            pv = s & ~((1 << (i + 1)) - 1)
            if pv != 0 and (not past or pv != past[-1]):
                past.append(pv)
    fut = []
    fv = n
    for i in range(n.bit_length()):
        if n & (1 << i) == 0:
            fv |= (1 << i)
            fv &= ~((1 << i) - 1)
            if fv <= E:
                fut.append(fv)
    sl = SK[maxidx(n) + 1: maxidx(E) + 1]
    for i in range(n.bit_length(), E.bit_length()):
        if sl and (1 << i) >= sl[0]:
            break
        fut.append(1 << i)
    fut += sl
    return past, fut

def fill_markers(jobs, E):
    for j in jobs:
        if j["kind"] == "history" and j["past"] == "auto":
            vs = [c[1] for c in j["claims"]]
            p, f = marker_versions_py(min(vs), max(vs), E)
            j["past"], j["future"] = p, f
    return jobs

def c08():
    chk = Check("C08", "model_checking")
    # (1) the marker algebra: shape, history/history agreement; the lookup/history gap set is exported
    cfg = "MCMarkers_quick.cfg" if chk.tier == "quick" else "MCMarkers_thorough.cfg"
    res = run_tlc_mc("MCMarkers", cfg, chk.wd, workers=12, timeout=3000, heap="8g")
    chk.add_mc(res)
    if res["violation"]:
        chk.violation(f"TLC: marker versions violate shape or history/history agreement: {res['violation'][:300]}", {"tlc_output": res["out"]})
    gaps = set()
    for g in res["export"].get("GAP", []):
        g = json.loads(g)
        for m in g["ms"]:
            gaps.add((g["E"], g["n"], m))
    maxE = 40 if chk.tier == "quick" else 96
    log(f"[mc] {cfg}: {res['distinct']} (E, n) states, {len(gaps)} lookup/history gap triples up to E={maxE}")
    # (2) the real get_marker_versions equals the transcription
    binp = build_harness()
    md = f"{chk.wd}/markers"
    rc, out, err = sh(f"{binp} markers --out {md} --max {maxE} --seed {chk.seed} --files 12", timeout=900)
    if rc != 0:
        raise ToolError("harness markers failed: " + err[-1000:])
    mtraces = sorted(glob.glob(f"{md}/trace_*.ndjson"))
    mres = validate_traces("TraceMarkers", "TraceMarkers.cfg", mtraces, chk.wd)
    for r in mres:
        if r["error"] and r["accepted"] is None and r["rejected"] is None:
            raise ToolError(f"TLC error validating {r['trace']}: {r['error']}")
        if r["rejected"] is not None:
            chk.violation(f"get_marker_versions differs from its specification: {r['rejected'][1][:300]}", {"trace_file": r["trace"], "line": r["rejected"][0]})
        else:
            chk.cov["traces_validated_against_impl"] += 1
    chk.cov["marker_triples_validated"] = sum(E * (E + 1) // 2 for E in range(1, maxE + 1)) + 400
    # (3) dishonest trees: honest prefix 1..n, extra fresh versions, real verifiers on every candidate proof
    rnd = random.Random(chk.seed)
    trees = []
    Emax = 9
    for n in range(1, 6):
        extras_pool = list(range(n + 1, Emax + 1))
        combos = [()] + [(x,) for x in extras_pool] + list(itertools.combinations(extras_pool, 2))
        if chk.tier == "quick":
            combos = [c for i, c in enumerate(combos) if i % 2 == 0 or len(c) <= 1]
        for ex in combos:
            for (E, with_stale) in [(e0, ws) for e0 in sorted({max([n] + list(ex)), Emax}) for ws in ((False, True) if ex else (False,))]:
                # the extra versions alone, or each with the stale marker of its predecessor planted next to it
                leaves = honest_leaves("a", n) + [["a", "F", v, "x", E] for v in ex]
                if with_stale:
                    leaves += [["a", "S", v - 1, "-", E] for v in ex if not any(l[1] == "S" and l[2] == v - 1 for l in leaves)]
                jobs = history_jobs("a", leaves, E)
                fresh = sorted({lf[2] for lf in leaves if lf[1] == "F"})
                for m in fresh:
                    lf = [l for l in leaves if l[1] == "F" and l[2] == m][0]
                    jobs.append({"kind": "lookup", "label": "a", "claim": [lf[3], m, lf[4]], "marker": pow2floor(m)})
                trees.append({"id": len(trees) + 1, "cfg": ["wa", "exp"][len(trees) % 2], "conc": len(trees) % 3, "leaves": leaves, "E": E,
                              "n": n, "extras": list(ex), "jobs": fill_markers(jobs, E)})
    dtraces = run_forge_harness(chk, trees, name="dishonest")
    results = validate_traces("TraceDirectory", "TraceDirectory.cfg", dtraces, chk.wd)
    chk.handle_validation(results, label="dishonest tree: ")
    # cross-proof agreement on what the REAL verifiers accepted
    known = [k for k in load_known() if k.get("property") == "C08" and k.get("status") == "open"]
    disagreements = 0
    known_hits = 0
    ntrees = 0
    for t in dtraces:
        cur, acc_h, acc_l = None, [], []
        def settle():
            nonlocal disagreements, known_hits
            if cur is None:
                return
            E = cur["E"]
            latest_h = {max(c[1] for c in e["claims"]) for e in acc_h}
            complete_latest = {max(c[1] for c in e["claims"]) for e in acc_h if e["n"] == 0}
            if len(latest_h) > 1:
                disagreements += 1
                chk.violation(f"two history proofs verify under one root with different latest versions {sorted(latest_h)}", {"tree": cur})
            for nn in complete_latest:
                for e in acc_l:
                    m = e["claim"][1]
                    if m != nn:
                        if m > nn and (E, nn, m) in gaps and known:
                            known_hits += 1
                        elif m > nn and E > maxE:
                            known_hits += 1
                        else:
                            disagreements += 1
                            chk.violation(f"complete history verifies with latest {nn} and a lookup verifies with version {m} at epoch {E}: outside the known gap predicate", {"tree": cur})
        for line in open(t):
            e = json.loads(line)
            if e["ev"] == "dtree":
                settle()
                cur, acc_h, acc_l = e, [], []
                ntrees += 1
            elif e["ev"] == "forge_history" and e["verdict"] == "accepted":
                acc_h.append(e)
            elif e["ev"] == "forge_lookup" and e["verdict"] == "accepted":
                acc_l.append(e)
            elif e["ev"] in ("forge_history", "forge_lookup") and e["verdict"] == "panic":
                chk.violation("a client verifier panicked on a forged proof", {"event": e, "tree": cur})
        settle()
    if known_hits:
        chk.known_finding("a complete history verifying with latest version n coexists with a lookup verifying version m > n under one root whenever neither m nor 2^floor(log2 m) is a future marker of (n, epoch) - smallest case epoch 7, n 4, m 7")
    if gaps and not known:
        chk.violation("lookup and history markers leave a gap (specification level)", {"triples": sorted(gaps)[:10]})
    chk.cov["dishonest_trees"] = ntrees
    chk.cov["gap_triples_in_model"] = len(gaps)
    chk.cov["real_disagreements_matching_known_finding"] = known_hits
    chk.cov["distinct_nontrivial"] = ntrees
    chk.cov["samples"] = [{"tree": trees[min(7, len(trees) - 1)]["leaves"], "E": trees[min(7, len(trees) - 1)]["E"], "jobs": trees[min(7, len(trees) - 1)]["jobs"][:4]}]
    chk.cov["exhaustive"] = True
    chk.cov["rule"] = ("TLC checks, for every epoch E <= %d and version n <= E, the documented shape of the marker lists (incl. n+1 is always a future "
        "marker), history/history agreement for all m > n and all start versions, and exports the set of (E, n, m) where a lookup for m > n hits no "
        "future marker of (n, E) - the known finding. The real get_marker_versions is validated against the transcription for ALL (start, end, epoch) "
        "triples up to %d plus 400 seeded large ones. Dishonest trees (honest versions 1..n of a label, plus up to two extra fresh versions up to 9, "
        "at epoch max or 9) are built with the real Azks; every history range over present versions and every lookup are assembled from real material "
        "and verified by akd's verifiers; TLC validates each verdict against AkdProofGame, and any pair of accepted proofs with different latest "
        "versions is a VIOLATION unless it is a (complete history n, lookup m > n) pair inside the exported gap set." % (maxE, maxE))
    chk.assumptions += ["TLC integers are 32-bit: the skip-list element 2^32 is not exercised", "soundness of membership / non-membership proofs (C05) and VRF binding (C18)"]
    return chk.finish()

TABLE = {"C06": c06, "C07": c07, "C08": c08}
