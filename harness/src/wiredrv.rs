//! C18 (VRF binding decision table) and C19 (protobuf wire path: structured mutations and seeded fuzz).
//! Events are validated by TLC against AkdWire.tla.

use crate::common::*;
use crate::dirdrv::{DirCtx, HasRef, Cell};
use akd::ecvrf::{HardCodedAkdVRF, VRFKeyStorage, VrfError};
use akd::verify::history::HistoryParams;
use akd::{AkdLabel, AkdValue, EpochHash, HistoryVerificationParams, VersionFreshness};
use akd_core::proto::specs::types as pb;
use protobuf::{Message, MessageField};
use serde_json::{json, Value};

#[derive(Clone)]
pub struct OtherKey;
#[async_trait::async_trait]
impl VRFKeyStorage for OtherKey {
    async fn retrieve(&self) -> Result<Vec<u8>, VrfError> {
        Ok(hex::decode("0123456789abcdef0123456789abcdef0123456789abcdef0123456789abcdef").unwrap())
    }
}

fn catch<T>(f: impl FnOnce() -> T) -> Option<T> {
    std::panic::catch_unwind(std::panic::AssertUnwindSafe(f)).ok()
}

async fn honest_dir<TC: HasRef>(conc: u64) -> DirCtx<TC> {
    let cell = Cell { par: "disabled".into(), cache: "none".into(), reopen: "same".into(), wire: false };
    let mut ctx = DirCtx::<TC>::new(conc, cell, vec!["a".into(), "b".into(), "c".into()], vec!["x".into(), "y".into()]).await;
    let mut scratch = Tracer::new();
    for batch in [json!([["a", "x"], ["b", "x"]]), json!([["a", "y"], ["c", "x"]]), json!([["a", "x"]]), json!([["b", "y"], ["a", "y"]])] {
        ctx.publish(&batch, &mut scratch).await;
    }
    ctx
}

// ------------------------------------------------------------------------------------------ C18

pub async fn vrf_events<TC: HasRef>(b: &Value, tr: &mut Tracer) {
    let mut ctx = honest_dir::<TC>(b["conc"].as_u64().unwrap_or(0)).await;
    let pk = ctx.pk.clone();
    let other_pk = OtherKey.get_vrf_public_key().await.unwrap().as_bytes().to_vec();
    // decision table through the real verifier: a correct lookup proof, then one verification input altered at a time
    for lname in ["a", "b", "c"] {
        let label = ctx.conc.label(lname);
        let (proof, eh) = ctx.dir.lookup(label.clone()).await.unwrap();
        let other_label = ctx.conc.label(if lname == "a" { "b" } else { "a" });
        let mut rows: Vec<(&str, bool)> = vec![];
        let v = |pkb: &[u8], l: &AkdLabel, p: akd::LookupProof| catch(|| akd::client::lookup_verify::<TC>(pkb, eh.1, eh.0, l.clone(), p).is_ok());
        rows.push(("none", v(&pk, &label, proof.clone()).unwrap_or(false)));
        rows.push(("key", v(&other_pk, &label, proof.clone()).unwrap_or(true)));
        rows.push(("label", v(&pk, &other_label, proof.clone()).unwrap_or(true)));
        let mut p = proof.clone();
        p.version += 1;
        rows.push(("version", v(&pk, &label, p).unwrap_or(true)));
        let mut p = proof.clone();
        std::mem::swap(&mut p.existence_vrf_proof, &mut p.freshness_vrf_proof);
        rows.push(("freshness", v(&pk, &label, p).unwrap_or(true)));
        let mut p = proof.clone();
        p.existence_proof.label.label_val[31] ^= 1;
        rows.push(("node_label", v(&pk, &label, p).unwrap_or(true)));
        for (alter, acc) in rows {
            tr.emit(json!({"ev": "vrf_row", "label": lname, "alter": alter, "accepted": acc}));
        }
    }
    // determinism and agreement of the derivation paths, key dependence; structured labels and extreme versions
    let vrf = HardCodedAkdVRF {};
    let mut long_a = vec![7u8; 1000];
    long_a[999] = 1;
    let mut long_b = vec![7u8; 1000];
    long_b[999] = 2;
    let labels: Vec<(&str, Vec<u8>)> = vec![("empty", vec![]), ("one", vec![0u8]), ("two", vec![0u8, 0u8]), ("long", vec![7u8; 1000]), ("longer", vec![7u8; 1001]),
        ("long_a", long_a), ("long_b", long_b), ("ab", b"ab".to_vec()), ("abc", b"abc".to_vec())];
    let versions: Vec<u64> = vec![1, 2, 255, 256, 1u64 << 32, (1u64 << 56) + 1, 1u64 << 63, 0x00ff_ffff_ffff_ffff, u64::MAX];
    // sensitivity: every single-bit change of the version and every single-byte change of the label gives another node label
    for (lname, lb) in [("short", b"sensitivity".to_vec()), ("long600", (0..600u32).map(|i| (i % 251) as u8).collect::<Vec<u8>>())] {
        let label = AkdLabel(lb.clone());
        for base in [1u64, 0x0123_4567_89ab_cdef, u64::MAX] {
            let n0 = vrf.get_node_label::<TC>(&label, VersionFreshness::Fresh, base).await.unwrap();
            let mut same = 0;
            for bit in 0..64 {
                let n1 = vrf.get_node_label::<TC>(&label, VersionFreshness::Fresh, base ^ (1u64 << bit)).await.unwrap();
                if n1 == n0 {
                    same += 1;
                }
            }
            tr.emit(json!({"ev": "vrf_sens", "label": lname, "what": "version_bit", "base": format!("{base}"), "tried": 64, "unchanged": same}));
        }
        let n0 = vrf.get_node_label::<TC>(&label, VersionFreshness::Fresh, 1).await.unwrap();
        let mut same = 0;
        let mut tried = 0;
        for pos in (0..lb.len()).step_by(if lb.len() > 64 { 7 } else { 1 }).chain([lb.len() - 1]) {
            let mut l2 = lb.clone();
            l2[pos] ^= 0x20;
            tried += 1;
            if vrf.get_node_label::<TC>(&AkdLabel(l2), VersionFreshness::Fresh, 1).await.unwrap() == n0 {
                same += 1;
            }
        }
        // truncation / extension by one byte
        let mut l3 = lb.clone();
        l3.pop();
        let mut l4 = lb.clone();
        l4.push(0);
        for l in [l3, l4] {
            tried += 1;
            if vrf.get_node_label::<TC>(&AkdLabel(l), VersionFreshness::Fresh, 1).await.unwrap() == n0 {
                same += 1;
            }
        }
        tr.emit(json!({"ev": "vrf_sens", "label": lname, "what": "label_byte", "base": "1", "tried": tried, "unchanged": same}));
    }
    let mut seen = std::collections::HashMap::new();
    for (lname, lb) in labels.iter() {
        let label = AkdLabel(lb.clone());
        for fresh in [true, false] {
            let f = if fresh { VersionFreshness::Fresh } else { VersionFreshness::Stale };
            for ver in versions.iter() {
                let n1 = vrf.get_node_label::<TC>(&label, f, *ver).await.unwrap();
                let n2 = vrf.get_node_label::<TC>(&label, f, *ver).await.unwrap();
                let pr = vrf.get_label_proof::<TC>(&label, f, *ver).await.unwrap();
                let n3 = vrf.get_node_label_from_vrf_proof(pr).await;
                let bulk = vrf.get_node_labels::<TC>(&[(label.clone(), f, *ver, AkdValue(vec![]))]).await.unwrap();
                let n4 = bulk[0].1;
                let o1 = OtherKey.get_node_label::<TC>(&label, f, *ver).await.unwrap();
                // the VRF proof verifies under the public key for exactly this input
                let hashed = TC::get_hash_from_label_input(&label, f, *ver);
                let pkobj = vrf.get_vrf_public_key().await.unwrap();
                let pr2 = vrf.get_label_proof::<TC>(&label, f, *ver).await.unwrap();
                let verifies = pkobj.verify(&pr2, &hashed).is_ok();
                let other_pkobj = OtherKey.get_vrf_public_key().await.unwrap();
                let verifies_other = other_pkobj.verify(&pr2, &hashed).is_ok();
                // seeded bit flips of the proof bytes: reject, or the same node label
                let mut flip_bad = 0;
                let bytes = pr2.to_bytes();
                for k in 0..16usize {
                    let mut bb = bytes;
                    let pos = (k * 37 + (*ver as usize % 7) + lb.len()) % bb.len();
                    bb[pos] ^= 1 << (k % 8);
                    if let Ok(p3) = akd::ecvrf::Proof::try_from(&bb[..]) {
                        if pkobj.verify(&p3, &hashed).is_ok() {
                            let n5 = vrf.get_node_label_from_vrf_proof(p3).await;
                            if n5 != n1 {
                                flip_bad += 1;
                            }
                        }
                    }
                }
                let dup = seen.insert(n1, (lname.to_string(), fresh, *ver)).is_some();
                let ckey = TC::hash(&vrf.retrieve().await.unwrap());
                let ckey2 = TC::hash(&OtherKey.retrieve().await.unwrap());
                let c1 = TC::compute_fresh_azks_value(&ckey, &n1, *ver, &AkdValue(b"v".to_vec()));
                let c2 = TC::compute_fresh_azks_value(&ckey2, &n1, *ver, &AkdValue(b"v".to_vec()));
                tr.emit(json!({"ev": "vrf_det", "label": lname, "fresh": fresh, "version": format!("{ver}"),
                    "deterministic": n1 == n2, "proof_agrees": n1 == n3, "bulk_agrees": n1 == n4, "len256": n1.label_len == 256,
                    "verifies": verifies, "verifies_under_other_key": verifies_other, "key_dependent": o1 != n1,
                    "collides_with_other_input": dup, "flip_yields_other_label": flip_bad, "commitment_key_dependent": c1 != c2}));
            }
        }
    }
}

// ------------------------------------------------------------------------------------------ C19

/// what kind of malformation a mutation is (the specification says which kinds must be refused)
fn class_of(name: &str) -> &'static str {
    if name == "none" {
        "none"
    } else if name.ends_with("[optional]") {
        "optional"
    } else if name.ends_with("siblings:2") {
        "surplus"
    } else if name.ends_with(":clear") {
        "required"
    } else if name.ends_with("bytes") || name.contains("label_len:") {
        "size"
    } else if name.contains("direction:") {
        "range"
    } else {
        "count"
    }
}

fn res_of_lookup(m: &pb::LookupProof) -> &'static str {
    match catch(|| akd::LookupProof::try_from(m).is_ok()) {
        None => "panic",
        Some(true) => "ok",
        Some(false) => "err",
    }
}
fn res_of_history(m: &pb::HistoryProof) -> &'static str {
    match catch(|| akd::HistoryProof::try_from(m).is_ok()) {
        None => "panic",
        Some(true) => "ok",
        Some(false) => "err",
    }
}
fn res_of_audit(m: &pb::AppendOnlyProof) -> &'static str {
    match catch(|| akd::AppendOnlyProof::try_from(m).is_ok()) {
        None => "panic",
        Some(true) => "ok",
        Some(false) => "err",
    }
}

fn mem_mutations(base: &pb::MembershipProof) -> Vec<(String, pb::MembershipProof)> {
    let mut out = vec![];
    let mut m = base.clone();
    m.label = MessageField::none();
    out.push(("label:clear".to_string(), m));
    let mut m = base.clone();
    m.label.as_mut().unwrap().label_len = Some(257);
    out.push(("label.label_len:257".to_string(), m));
    let mut m = base.clone();
    m.label.as_mut().unwrap().label_len = None;
    out.push(("label.label_len:clear".to_string(), m));
    let mut m = base.clone();
    m.label.as_mut().unwrap().label_val = Some(vec![1u8; 33]);
    out.push(("label.label_val:33bytes".to_string(), m));
    let mut m = base.clone();
    m.label.as_mut().unwrap().label_val = None;
    out.push(("label.label_val:clear".to_string(), m));
    let mut m = base.clone();
    m.hash_val = None;
    out.push(("hash_val:clear".to_string(), m));
    for n in [0usize, 31, 33] {
        let mut m = base.clone();
        m.hash_val = Some(vec![9u8; n]);
        out.push((format!("hash_val:{n}bytes"), m));
    }
    if !base.sibling_proofs.is_empty() {
        let mut m = base.clone();
        m.sibling_proofs[0].direction = None;
        out.push(("sibling.direction:clear".to_string(), m));
        let mut m = base.clone();
        m.sibling_proofs[0].direction = Some(2);
        out.push(("sibling.direction:2".to_string(), m));
        let mut m = base.clone();
        m.sibling_proofs[0].label = MessageField::none();
        out.push(("sibling.label:clear".to_string(), m));
        let mut m = base.clone();
        m.sibling_proofs[0].siblings.clear();
        out.push(("sibling.siblings:0".to_string(), m));
        let mut m = base.clone();
        let s0 = m.sibling_proofs[0].siblings[0].clone();
        m.sibling_proofs[0].siblings.push(s0);
        out.push(("sibling.siblings:2".to_string(), m));
        let mut m = base.clone();
        m.sibling_proofs[0].siblings[0].value = Some(vec![1u8; 31]);
        out.push(("sibling.value:31bytes".to_string(), m));
        let mut m = base.clone();
        m.sibling_proofs[0].siblings[0].value = None;
        out.push(("sibling.value:clear".to_string(), m));
        let mut m = base.clone();
        m.sibling_proofs[0].siblings[0].label = MessageField::none();
        out.push(("sibling.elem_label:clear".to_string(), m));
    }
    out
}

pub async fn wire_events<TC: HasRef>(b: &Value, tr: &mut Tracer) {
    let mut ctx = honest_dir::<TC>(b["conc"].as_u64().unwrap_or(0)).await;
    let seed = b["seed"].as_u64().unwrap_or(1);
    let label = ctx.conc.label("a");
    let (lp, eh) = ctx.dir.lookup(label.clone()).await.unwrap();
    let (hp, heh) = ctx.dir.key_history(&label, HistoryParams::Complete).await.unwrap();
    let ap = ctx.dir.audit(0, 3).await.unwrap();
    let lm = pb::LookupProof::from(&lp);
    let hm = pb::HistoryProof::from(&hp);
    let am = pb::AppendOnlyProof::from(&ap);
    // untouched messages decode
    tr.emit(json!({"ev": "wire_mut", "msg": "LookupProof", "mutation": "none", "class": "none", "res": res_of_lookup(&lm)}));
    tr.emit(json!({"ev": "wire_mut", "msg": "HistoryProof", "mutation": "none", "class": "none", "res": res_of_history(&hm)}));
    tr.emit(json!({"ev": "wire_mut", "msg": "AppendOnlyProof", "mutation": "none", "class": "none", "res": res_of_audit(&am)}));
    // LookupProof: scalar fields
    macro_rules! lk {
        ($name:expr, $m:ident, $body:block) => {{
            let mut $m = lm.clone();
            $body
            let nm: String = $name.to_string();
            tr.emit(json!({"ev": "wire_mut", "msg": "LookupProof", "mutation": nm, "class": class_of(&nm), "res": res_of_lookup(&$m)}));
        }};
    }
    lk!("epoch:clear", m, { m.epoch = None; });
    lk!("value:clear", m, { m.value = None; });
    lk!("version:clear", m, { m.version = None; });
    lk!("existence_vrf_proof:clear", m, { m.existence_vrf_proof = None; });
    lk!("marker_vrf_proof:clear", m, { m.marker_vrf_proof = None; });
    lk!("freshness_vrf_proof:clear", m, { m.freshness_vrf_proof = None; });
    lk!("commitment_nonce:clear", m, { m.commitment_nonce = None; });
    lk!("existence_proof:clear", m, { m.existence_proof = MessageField::none(); });
    lk!("marker_proof:clear", m, { m.marker_proof = MessageField::none(); });
    lk!("freshness_proof:clear", m, { m.freshness_proof = MessageField::none(); });
    for (name, mm) in mem_mutations(lm.existence_proof.as_ref().unwrap()) {
        lk!(format!("existence_proof.{name}"), m, { m.existence_proof = MessageField::some(mm.clone()); });
    }
    for (name, mm) in mem_mutations(lm.freshness_proof.longest_prefix_membership_proof.as_ref().unwrap()) {
        lk!(format!("freshness_proof.lpmp.{name}"), m, { m.freshness_proof.as_mut().unwrap().longest_prefix_membership_proof = MessageField::some(mm.clone()); });
    }
    lk!("freshness_proof.label:clear", m, { m.freshness_proof.as_mut().unwrap().label = MessageField::none(); });
    lk!("freshness_proof.longest_prefix:clear", m, { m.freshness_proof.as_mut().unwrap().longest_prefix = MessageField::none(); });
    lk!("freshness_proof.lpmp:clear", m, { m.freshness_proof.as_mut().unwrap().longest_prefix_membership_proof = MessageField::none(); });
    lk!("freshness_proof.children:1", m, { m.freshness_proof.as_mut().unwrap().longest_prefix_children.pop(); });
    lk!("freshness_proof.children:3", m, { let c = m.freshness_proof.as_ref().unwrap().longest_prefix_children[0].clone(); m.freshness_proof.as_mut().unwrap().longest_prefix_children.push(c); });
    lk!("freshness_proof.children:0", m, { m.freshness_proof.as_mut().unwrap().longest_prefix_children.clear(); });
    // HistoryProof
    macro_rules! hk {
        ($name:expr, $m:ident, $body:block) => {{
            let mut $m = hm.clone();
            $body
            let nm: String = $name.to_string();
            tr.emit(json!({"ev": "wire_mut", "msg": "HistoryProof", "mutation": nm, "class": class_of(&nm), "res": res_of_history(&$m)}));
        }};
    }
    hk!("update.epoch:clear", m, { m.update_proofs[0].epoch = None; });
    hk!("update.value:clear", m, { m.update_proofs[0].value = None; });
    hk!("update.version:clear", m, { m.update_proofs[0].version = None; });
    hk!("update.existence_vrf_proof:clear", m, { m.update_proofs[0].existence_vrf_proof = None; });
    hk!("update.existence_proof:clear", m, { m.update_proofs[0].existence_proof = MessageField::none(); });
    hk!("update.commitment_nonce:clear", m, { m.update_proofs[0].commitment_nonce = None; });
    for (name, mm) in mem_mutations(hm.update_proofs[0].existence_proof.as_ref().unwrap()) {
        hk!(format!("update.existence_proof.{name}"), m, { m.update_proofs[0].existence_proof = MessageField::some(mm.clone()); });
    }
    for (name, mm) in mem_mutations(hm.update_proofs[0].previous_version_proof.as_ref().unwrap()) {
        hk!(format!("update.previous_version_proof.{name}"), m, { m.update_proofs[0].previous_version_proof = MessageField::some(mm.clone()); });
    }
    // optional fields: absent previous-version material is a legal encoding (version 1 has none)
    hk!("update.previous_version_proof:clear[optional]", m, { m.update_proofs[0].previous_version_proof = MessageField::none(); });
    hk!("update.previous_version_vrf_proof:clear[optional]", m, { m.update_proofs[0].previous_version_vrf_proof = None; });
    if !hm.non_existence_of_future_marker_proofs.is_empty() {
        hk!("future.lpmp:clear", m, { m.non_existence_of_future_marker_proofs[0].longest_prefix_membership_proof = MessageField::none(); });
        hk!("future.children:1", m, { m.non_existence_of_future_marker_proofs[0].longest_prefix_children.pop(); });
    }
    if !hm.existence_of_past_marker_proofs.is_empty() {
        for (name, mm) in mem_mutations(&hm.existence_of_past_marker_proofs[0]) {
            hk!(format!("past.{name}"), m, { m.existence_of_past_marker_proofs[0] = mm.clone(); });
        }
    }
    // AppendOnlyProof
    macro_rules! ak {
        ($name:expr, $m:ident, $body:block) => {{
            let mut $m = am.clone();
            $body
            let nm: String = $name.to_string();
            tr.emit(json!({"ev": "wire_mut", "msg": "AppendOnlyProof", "mutation": nm, "class": class_of(&nm), "res": res_of_audit(&$m)}));
        }};
    }
    ak!("inserted.label:clear", m, { m.proofs[0].inserted[0].label = MessageField::none(); });
    ak!("inserted.value:clear", m, { m.proofs[0].inserted[0].value = None; });
    ak!("inserted.value:31bytes", m, { m.proofs[0].inserted[0].value = Some(vec![1u8; 31]); });
    ak!("inserted.label.label_len:300", m, { m.proofs[0].inserted[0].label.as_mut().unwrap().label_len = Some(300); });
    ak!("inserted.label.label_val:40bytes", m, { m.proofs[0].inserted[0].label.as_mut().unwrap().label_val = Some(vec![1u8; 40]); });
    if am.proofs.len() > 1 && !am.proofs[1].unchanged_nodes.is_empty() {
        ak!("unchanged.value:33bytes", m, { m.proofs[1].unchanged_nodes[0].value = Some(vec![1u8; 33]); });
        ak!("unchanged.label:clear", m, { m.proofs[1].unchanged_nodes[0].label = MessageField::none(); });
    }

    // seeded fuzz of the encodings: error, or a proof that verifies to the same result, or not at all
    use rand::{Rng, SeedableRng};
    let mut rng = rand::rngs::StdRng::seed_from_u64(seed);
    let lbytes = lm.write_to_bytes().unwrap();
    let hbytes = hm.write_to_bytes().unwrap();
    let abytes = am.write_to_bytes().unwrap();
    let lref = akd::client::lookup_verify::<TC>(&ctx.pk, eh.1, eh.0, label.clone(), lp.clone()).unwrap();
    let href = akd::client::key_history_verify::<TC>(&ctx.pk, heh.1, heh.0, label.clone(), hp.clone(), HistoryVerificationParams::default()).unwrap();
    let hashes: Vec<akd::Digest> = (0..=3).map(|i| ctx.roots[i]).collect();
    let nf = b["fuzz"].as_u64().unwrap_or(300);
    for i in 0..nf {
        for (kind, bytes) in [("lookup", &lbytes), ("history", &hbytes), ("audit", &abytes)] {
            let mut bb = bytes.clone();
            let how = match i % 3 {
                0 => {
                    let cut = rng.random_range(0..bb.len());
                    bb.truncate(cut);
                    "truncate"
                }
                1 => {
                    let pos = rng.random_range(0..bb.len());
                    bb[pos] ^= 1 << rng.random_range(0..8);
                    "flip"
                }
                _ => {
                    let n = rng.random_range(1..64);
                    bb = (0..n).map(|_| rng.random::<u8>()).collect();
                    "random"
                }
            };
            let pk = ctx.pk.clone();
            let l = label.clone();
            let res: &str = match kind {
                "lookup" => match catch(|| pb::LookupProof::parse_from_bytes(&bb).ok().and_then(|m| akd::LookupProof::try_from(&m).ok())) {
                    None => "panic",
                    Some(None) => "err",
                    Some(Some(p)) => match catch(|| akd::client::lookup_verify::<TC>(&pk, eh.1, eh.0, l, p)) {
                        None => "panic",
                        Some(Err(_)) => "unverifiable",
                        Some(Ok(r)) => if r == lref { "same" } else { "different" },
                    },
                },
                "history" => match catch(|| pb::HistoryProof::parse_from_bytes(&bb).ok().and_then(|m| akd::HistoryProof::try_from(&m).ok())) {
                    None => "panic",
                    Some(None) => "err",
                    Some(Some(p)) => match catch(|| akd::client::key_history_verify::<TC>(&pk, heh.1, heh.0, l, p, HistoryVerificationParams::default())) {
                        None => "panic",
                        Some(Err(_)) => "unverifiable",
                        Some(Ok(r)) => if r == href { "same" } else { "different" },
                    },
                },
                _ => match catch(|| pb::AppendOnlyProof::parse_from_bytes(&bb).ok().and_then(|m| akd::AppendOnlyProof::try_from(&m).ok())) {
                    None => "panic",
                    Some(None) => "err",
                    Some(Some(p)) => {
                        let h2 = hashes.clone();
                        match tokio::spawn(async move { akd::auditor::audit_verify::<TC>(h2, p).await.is_ok() }).await {
                            Err(_) => "panic",
                            Ok(true) => "same",
                            Ok(false) => "unverifiable",
                        }
                    }
                },
            };
            tr.emit(json!({"ev": "wire_fuzz", "kind": kind, "how": how, "res": res}));
        }
    }
    // audit blob names round trip
    #[allow(unused_imports)]
    use akd::local_auditing::{AuditBlob, AuditBlobName};
    for ep in [0u64, 1, 2] {
        let proof1 = ctx.dir.audit(ep, ep + 1).await.unwrap();
        let blob = catch(|| AuditBlob::new(ctx.roots[ep as usize], ctx.roots[ep as usize + 1], ep, &proof1.proofs[0]));
        let ok = match blob {
            Some(Ok(bl)) => {
                let name_str = bl.name.to_string();
                let name_back = AuditBlobName::try_from(name_str.as_str());
                let dec = bl.decode();
                match (name_back, dec) {
                    (Ok(nb), Ok((e2, h1, h2, p2))) => nb == bl.name && e2 == ep && h1 == ctx.roots[ep as usize] && h2 == ctx.roots[ep as usize + 1] && p2 == proof1.proofs[0],
                    _ => false,
                }
            }
            _ => false,
        };
        tr.emit(json!({"ev": "blob", "epoch": ep, "roundtrip": ok}));
    }
    let _ = EpochHash(0, [0u8; 32]);
}

pub fn main_wire(args: &[String]) {
    let input = arg_val(args, "--in").expect("--in");
    let out = arg_val(args, "--out").expect("--out");
    let threads: usize = arg_val(args, "--threads").map(|s| s.parse().unwrap()).unwrap_or(8);
    let behaviours = read_ndjson(&input);
    std::panic::set_hook(Box::new(|_| {}));
    let (n, total) = crate::dirdrv::run_parallel(behaviours, &out, threads, |b| async move {
        let mut tr = Tracer::new();
        let wa = b["cfg"].as_str().unwrap_or("wa") == "wa";
        match b["what"].as_str().unwrap_or("wire") {
            "vrf" => {
                if wa { vrf_events::<Wa>(&b, &mut tr).await } else { vrf_events::<Exp>(&b, &mut tr).await }
            }
            _ => {
                if wa { wire_events::<Wa>(&b, &mut tr).await } else { wire_events::<Exp>(&b, &mut tr).await }
            }
        }
        tr
    });
    println!("{}", json!({"behaviours": n, "events": total}));
}
