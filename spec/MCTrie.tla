------------------------------- MODULE MCTrie -------------------------------
(* Bounded model of AkdTrie: all ways of filling the 2^D leaf slots over at  *)
(* most MaxEpoch epochs (at most MaxLeaves leaves).  A state is the stored   *)
(* node table; `leaves` is the ground truth it must be the canonical tree of.*)
EXTENDS AkdTrie, Json

CONSTANTS D, MaxEpoch, MaxLeaves, Export, MaxU, MaxI

VARIABLES store, azks, leaves

tvars == <<store, azks, leaves>>

LeafSlots == [1..D -> Bit]
ValueOf(lab) == <<"V", 1>>
Members == LeafLabels(leaves)
LeavesUpTo(t) == { x \in leaves : x.ep <= t }
Cur == azks.epoch
Root == RootHashAt(store, Cur)

Init == store = EmptyStore /\ azks = EmptyAzks /\ leaves = {}

Publish(S) ==
  LET E == { [label |-> q, value |-> ValueOf(q)] : q \in S }
      r == InsertBatch(store, azks, E, "dir")
  IN /\ store' = r.st
     /\ azks' = r.az
     /\ leaves' = leaves \cup { [label |-> q, value |-> ValueOf(q), ep |-> azks.epoch + 1] : q \in S }

Next ==
  /\ azks.epoch < MaxEpoch
  /\ \E S \in (SUBSET (LeafSlots \ Members)) \ {{}} :
        /\ Cardinality(leaves) + Cardinality(S) <= MaxLeaves
        /\ Publish(S)

Spec == Init /\ [][Next]_tvars

(* export of every distinct state (= leaf assignment) for replay on the real code *)
ExportState == Export => PrintT(<<"TREE", ToJson(leaves)>>)

---------------------------------------------------------------------------
(* C01 (trie level): incremental insertion yields exactly the canonical tree *)
StoreIsCanonical == StoreView(store, Cur) = CanonViews(leaves, "dir")
RootIsCanonical == Root = CanonRoot(leaves, "dir")
CommitsToLeaves == CommittedBy(Root) = { <<x.label, x.value, x.ep>> : x \in leaves }
NumNodesCounted == azks.num = Cardinality(StoreView(store, Cur))
(* C11 (record level): the previous epoch stays readable from the same records *)
OldViewIntact == Cur > 0 => StoreView(store, Cur - 1) = CanonViews(LeavesUpTo(Cur - 1), "dir")

(* C05 *)
MemComplete ==
  \A q \in LeafSlots :
    LET p == MemProof(store, Cur, q) IN
    IF q \in Members
      THEN LET x == CHOOSE x \in leaves : x.label = q IN
           p.label = q /\ p.hash_val = <<"LH", x.value, x.ep>> /\ VerifyMem(Root, p)
      ELSE p.label # q
NonMemComplete ==
  leaves # {} => \A q \in LeafSlots : VerifyNonMem(Root, NonMemProof(store, Cur, q)) <=> q \notin Members
MemSound == MemSoundAt(store, Cur)
NonMemSound == LET M == Material(store, Cur) IN \A q \in LeafSlots : NonMemAcceptedM(M, q) # {} => q \notin Members
(* the degenerate case recorded as a known finding: no absence proof verifies on the empty tree *)
EmptyTreeAbsenceProvable == leaves = {} => \A q \in LeafSlots : VerifyNonMem(Root, NonMemProof(store, Cur, q))

(* C04: every single step i -> i+1 of every audit range, generated on the LATEST tree, is accepted *)
(* by the auditor against the canonical roots of epochs i and i+1, and contains what it should.   *)
AuditAllRanges ==
  \A i \in 0..(Cur - 1) :
    LET pr == AuditStep(store, Cur, i) IN
    /\ AuditorAccepts(pr.unchanged, pr.inserted, CanonRoot(LeavesUpTo(i), "dir"), CanonRoot(LeavesUpTo(i + 1), "dir"), i + 1, FALSE)
    /\ pr.inserted = { [label |-> x.label, value |-> x.value] : x \in { y \in leaves : y.ep = i + 1 } }

(* C09: no append-only proof assembled from real nodes passes a transition that loses a committed leaf *)
AuditSound == AuditSoundAt(store, Cur, D, { <<"V", 1>>, <<"V", 2>> }, MaxU, MaxI)
(* an honest single-epoch proof whose list repeats an element is rejected *)
AuditDupRejected ==
  Cur > 0 => LET pr == AuditStep(store, Cur, Cur - 1) IN
             ~AuditorAccepts(pr.unchanged, pr.inserted, CanonRoot(LeavesUpTo(Cur - 1), "dir"), Root, Cur, TRUE)

(* C14: splitting a batch into two sub-batches inserted at the same epoch gives the same tree *)
OrderIndependence ==
  [][ LET S == { [label |-> x.label, value |-> x.value] : x \in (leaves' \ leaves) }
          e == azks.epoch + 1
      IN \A T \in (SUBSET S) \ {{}, S} :
           StoreView(InsertEpoch(InsertEpoch(store, T, e, "dir").st, S \ T, e, "dir").st, e) = StoreView(store', e) ]_tvars

(* C11: any subset of the commit's record writes leaves the previous epoch's view intact *)
WriteSet == { lab \in DOMAIN store' : lab \notin DOMAIN store \/ store'[lab] # store[lab] }
Partial(W) == [lab \in (DOMAIN store) \cup W |-> IF lab \in W THEN store'[lab] ELSE store[lab]]
CrashSubsets ==
  [][ \A W \in SUBSET WriteSet : StoreView(Partial(W), azks.epoch) = StoreView(store, azks.epoch) ]_tvars
=============================================================================
