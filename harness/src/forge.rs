//! The adversarial server of C06 / C07 / C08: holds the VRF key and the tree and assembles lookup and
//! history proofs for arbitrary claims out of real material (honest membership / non-membership paths of
//! the claimed node labels, real VRF proofs, real commitment nonces). The verdicts of akd's client
//! verifiers are recorded for TLC (TraceDirectory / AkdProofGame).

use crate::common::*;
use crate::dirdrv::HasRef;
use crate::hookdb::HookDb;
use akd::append_only_zks::{Azks, AzksParallelismConfig, InsertMode};
use akd::ecvrf::{HardCodedAkdVRF, VRFKeyStorage};
use akd::storage::manager::StorageManager;
use akd::verify::history::HistoryParams;
use akd::{
    AkdLabel, AkdValue, AzksElement, Digest, HistoryProof, HistoryVerificationParams, LookupProof, UpdateProof,
    VersionFreshness,
};
use serde_json::{json, Value};

pub struct Forge<TC: HasRef> {
    pub manager: StorageManager<HookDb>,
    pub azks: Azks,
    pub vrf: HardCodedAkdVRF,
    pub pk: Vec<u8>,
    pub ckey: Digest,
    _tc: std::marker::PhantomData<TC>,
}

fn fr(fresh: bool) -> VersionFreshness {
    if fresh {
        VersionFreshness::Fresh
    } else {
        VersionFreshness::Stale
    }
}

impl<TC: HasRef> Forge<TC> {
    pub async fn over(manager: StorageManager<HookDb>, azks: Azks) -> Self {
        let vrf = HardCodedAkdVRF {};
        let pk = vrf.get_vrf_public_key().await.unwrap().as_bytes().to_vec();
        let ckey = TC::hash(&vrf.retrieve().await.unwrap());
        Forge { manager, azks, vrf, pk, ckey, _tc: std::marker::PhantomData }
    }

    /// a tree with exactly the given leaves [[label, "F"|"S", version, value, epoch], ...], epochs 1..=e
    pub async fn build_dishonest(conc: &mut Conc, leaves: &Value, e: u64) -> Self {
        let db = HookDb::new();
        let manager = StorageManager::new_no_cache(db);
        let mut azks = Azks::new::<TC, _>(&manager).await.unwrap();
        let vrf = HardCodedAkdVRF {};
        let ckey = TC::hash(&vrf.retrieve().await.unwrap());
        for ep in 1..=e {
            let mut elems = vec![];
            for lf in leaves.as_array().unwrap() {
                if lf[4].as_u64().unwrap() != ep {
                    continue;
                }
                let label = conc.label(lf[0].as_str().unwrap());
                let fresh = lf[1].as_str().unwrap() == "F";
                let ver = lf[2].as_u64().unwrap();
                let nl = vrf.get_node_label::<TC>(&label, fr(fresh), ver).await.unwrap();
                let value = if fresh {
                    TC::compute_fresh_azks_value(&ckey, &nl, ver, &conc.value(lf[3].as_str().unwrap()))
                } else {
                    TC::stale_azks_value()
                };
                elems.push(AzksElement { label: nl, value });
            }
            azks.batch_insert_nodes::<TC, _>(&manager, elems, InsertMode::Directory, AzksParallelismConfig::disabled())
                .await
                .unwrap();
        }
        Self::over(manager, azks).await
    }

    pub async fn root(&self) -> Digest {
        self.azks.get_root_hash::<TC, _>(&self.manager).await.unwrap()
    }

    /// An absence "proof" for a node label that IS in the tree, anchored `up` levels above the leaf:
    /// the anchor's real children and real path, recomputed from the leaf's honest membership path.
    /// For a label that is absent (or up = 0) this is the honest generator's proof.
    pub async fn shallow_nonmembership(&self, nl: akd::NodeLabel, up: usize) -> Option<akd::NonMembershipProof> {
        let mp = self.azks.get_membership_proof::<TC, _>(&self.manager, nl).await.ok()?;
        if mp.label != nl || up == 0 || up > mp.sibling_proofs.len() {
            return self.azks.get_non_membership_proof::<TC, _>(&self.manager, nl).await.ok();
        }
        // values of the on-path nodes, from the leaf upwards
        let n = mp.sibling_proofs.len();
        let mut on_path: Vec<AzksElement> = vec![AzksElement { label: mp.label, value: mp.hash_val }];
        for i in (0..n).rev() {
            let sp = &mp.sibling_proofs[i];
            let cur = on_path.last().unwrap().clone();
            let sib = sp.siblings[0];
            let (l, r) = match sp.direction {
                akd::Direction::Left => (cur, sib),
                akd::Direction::Right => (sib, cur),
            };
            let v = TC::compute_parent_hash_from_children(&l.value, &l.label.value::<TC>(), &r.value, &r.label.value::<TC>());
            on_path.push(AzksElement { label: sp.label, value: v });
        }
        // on_path[0] = leaf, on_path[j] = ancestor j levels up (label = sibling_proofs[n - j].label)
        let anchor = on_path[up];
        let child = on_path[up - 1];
        let sp = &mp.sibling_proofs[n - up];
        let children = match sp.direction {
            akd::Direction::Left => [child, sp.siblings[0]],
            akd::Direction::Right => [sp.siblings[0], child],
        };
        Some(akd::NonMembershipProof {
            label: nl,
            longest_prefix: anchor.label,
            longest_prefix_children: children,
            longest_prefix_membership_proof: akd::MembershipProof {
                label: anchor.label,
                hash_val: anchor.value,
                sibling_proofs: mp.sibling_proofs[..n - up].to_vec(),
            },
        })
    }

    pub async fn lookup_proof(&self, label: &AkdLabel, ver: u64, value: &AkdValue, ep: u64, marker_ver: u64) -> Option<LookupProof> {
        let nl_f = self.vrf.get_node_label::<TC>(label, VersionFreshness::Fresh, ver).await.ok()?;
        let nl_m = self.vrf.get_node_label::<TC>(label, VersionFreshness::Fresh, marker_ver).await.ok()?;
        let nl_s = self.vrf.get_node_label::<TC>(label, VersionFreshness::Stale, ver).await.ok()?;
        Some(LookupProof {
            epoch: ep,
            value: value.clone(),
            version: ver,
            existence_vrf_proof: self.vrf.get_label_proof::<TC>(label, VersionFreshness::Fresh, ver).await.ok()?.to_bytes().to_vec(),
            existence_proof: self.azks.get_membership_proof::<TC, _>(&self.manager, nl_f).await.ok()?,
            marker_vrf_proof: self.vrf.get_label_proof::<TC>(label, VersionFreshness::Fresh, marker_ver).await.ok()?.to_bytes().to_vec(),
            marker_proof: self.azks.get_membership_proof::<TC, _>(&self.manager, nl_m).await.ok()?,
            freshness_vrf_proof: self.vrf.get_label_proof::<TC>(label, VersionFreshness::Stale, ver).await.ok()?.to_bytes().to_vec(),
            freshness_proof: self.azks.get_non_membership_proof::<TC, _>(&self.manager, nl_s).await.ok()?,
            commitment_nonce: TC::get_commitment_nonce(&self.ckey, &nl_f, ver, value).to_vec(),
        })
    }

    pub async fn update_proof(&self, label: &AkdLabel, ver: u64, value: &AkdValue, ep: u64) -> Option<UpdateProof> {
        let nl_f = self.vrf.get_node_label::<TC>(label, VersionFreshness::Fresh, ver).await.ok()?;
        let (pv, pvrf) = if ver > 1 {
            let nl_s = self.vrf.get_node_label::<TC>(label, VersionFreshness::Stale, ver - 1).await.ok()?;
            (
                Some(self.azks.get_membership_proof::<TC, _>(&self.manager, nl_s).await.ok()?),
                Some(self.vrf.get_label_proof::<TC>(label, VersionFreshness::Stale, ver - 1).await.ok()?.to_bytes().to_vec()),
            )
        } else {
            (None, None)
        };
        Some(UpdateProof {
            epoch: ep,
            version: ver,
            value: value.clone(),
            existence_vrf_proof: self.vrf.get_label_proof::<TC>(label, VersionFreshness::Fresh, ver).await.ok()?.to_bytes().to_vec(),
            existence_proof: self.azks.get_membership_proof::<TC, _>(&self.manager, nl_f).await.ok()?,
            previous_version_vrf_proof: pvrf,
            previous_version_proof: pv,
            commitment_nonce: TC::get_commitment_nonce(&self.ckey, &nl_f, ver, value).to_vec(),
        })
    }

    /// claims newest first: (version, value, epoch); marker proofs for exactly the given version lists
    pub async fn history_proof(&self, label: &AkdLabel, claims: &[(u64, AkdValue, u64)], past: &[u64], future: &[u64]) -> Option<HistoryProof> {
        let mut update_proofs = vec![];
        for (ver, val, ep) in claims {
            update_proofs.push(self.update_proof(label, *ver, val, *ep).await?);
        }
        let mut past_vrf = vec![];
        let mut past_mem = vec![];
        for v in past {
            let nl = self.vrf.get_node_label::<TC>(label, VersionFreshness::Fresh, *v).await.ok()?;
            past_vrf.push(self.vrf.get_label_proof::<TC>(label, VersionFreshness::Fresh, *v).await.ok()?.to_bytes().to_vec());
            past_mem.push(self.azks.get_membership_proof::<TC, _>(&self.manager, nl).await.ok()?);
        }
        let mut fut_vrf = vec![];
        let mut fut_non = vec![];
        for v in future {
            let nl = self.vrf.get_node_label::<TC>(label, VersionFreshness::Fresh, *v).await.ok()?;
            fut_vrf.push(self.vrf.get_label_proof::<TC>(label, VersionFreshness::Fresh, *v).await.ok()?.to_bytes().to_vec());
            fut_non.push(self.azks.get_non_membership_proof::<TC, _>(&self.manager, nl).await.ok()?);
        }
        Some(HistoryProof {
            update_proofs,
            past_marker_vrf_proofs: past_vrf,
            existence_of_past_marker_proofs: past_mem,
            future_marker_vrf_proofs: fut_vrf,
            non_existence_of_future_marker_proofs: fut_non,
        })
    }

    /// verdict of lookup_verify on a forged proof; a panic inside the verifier is data ("panic")
    pub fn verify_lookup(&self, root: Digest, e: u64, label: &AkdLabel, proof: LookupProof, conc: &Conc) -> (String, Value) {
        let pk = self.pk.clone();
        let l = label.clone();
        let r = std::panic::catch_unwind(std::panic::AssertUnwindSafe(|| akd::client::lookup_verify::<TC>(&pk, root, e, l, proof)));
        match r {
            Err(_) => ("panic".into(), json!([])),
            Ok(Err(_)) => ("rejected".into(), json!([])),
            Ok(Ok(vr)) => ("accepted".into(), json!([conc.value_name(&vr.value.0), vr.version, vr.epoch])),
        }
    }

    pub fn verify_history(&self, root: Digest, e: u64, label: &AkdLabel, proof: HistoryProof, n: u64, allow: bool, conc: &Conc) -> (String, Value) {
        let hp = if n == 0 { HistoryParams::Complete } else { HistoryParams::MostRecent(n as usize) };
        let vp = if allow {
            HistoryVerificationParams::AllowMissingValues { history_params: hp }
        } else {
            HistoryVerificationParams::Default { history_params: hp }
        };
        let pk = self.pk.clone();
        let l = label.clone();
        let r = std::panic::catch_unwind(std::panic::AssertUnwindSafe(|| akd::client::key_history_verify::<TC>(&pk, root, e, l, proof, vp)));
        match r {
            Err(_) => ("panic".into(), json!([])),
            Ok(Err(_)) => ("rejected".into(), json!([])),
            Ok(Ok(vrs)) => (
                "accepted".into(),
                Value::Array(vrs.iter().map(|v| json!([conc.value_name(&v.value.0), v.version, v.epoch])).collect()),
            ),
        }
    }
}

fn claims_of(conc: &mut Conc, v: &Value) -> Vec<(u64, AkdValue, u64)> {
    v.as_array()
        .unwrap()
        .iter()
        .map(|c| (c[1].as_u64().unwrap(), conc.value(c[0].as_str().unwrap()), c[2].as_u64().unwrap()))
        .collect()
}

/// Runs a list of forge jobs against a tree and records verdicts.
/// job: {"kind":"lookup","label","claim":[val,ver,ep],"marker":ver}  |
///      {"kind":"history","label","claims":[[val,ver,ep]...],"past":[..],"future":[..],"n":N,"mode":"default"|"allow"}
pub async fn run_jobs<TC: HasRef>(f: &Forge<TC>, conc: &mut Conc, e: u64, jobs: &Value, tr: &mut Tracer) {
    let root = f.root().await;
    for j in jobs.as_array().unwrap() {
        let label = conc.label(j["label"].as_str().unwrap());
        match j["kind"].as_str().unwrap() {
            "lookup" => {
                let c = &j["claim"];
                let (val, ver, ep) = (conc.value(c[0].as_str().unwrap()), c[1].as_u64().unwrap(), c[2].as_u64().unwrap());
                let marker = j["marker"].as_u64().unwrap();
                let up = j["up"].as_u64().unwrap_or(0) as usize;
                let (verdict, out) = match f.lookup_proof(&label, ver, &val, ep, marker).await {
                    None => ("unbuildable".to_string(), json!([])),
                    Some(mut p) => {
                        if up > 0 {
                            let nl_s = f.vrf.get_node_label::<TC>(&label, VersionFreshness::Stale, ver).await.unwrap();
                            if let Some(nm) = f.shallow_nonmembership(nl_s, up).await {
                                p.freshness_proof = nm;
                            }
                        }
                        f.verify_lookup(root, e, &label, p, conc)
                    }
                };
                tr.emit(json!({"ev": "forge_lookup", "label": j["label"], "claim": c, "marker": marker, "verdict": verdict, "out": out,
                    "tag": j["tag"].as_str().unwrap_or(""), "up": up}));
            }
            "history" => {
                let claims = claims_of(conc, &j["claims"]);
                let past: Vec<u64> = j["past"].as_array().unwrap().iter().map(|x| x.as_u64().unwrap()).collect();
                let future: Vec<u64> = j["future"].as_array().unwrap().iter().map(|x| x.as_u64().unwrap()).collect();
                let n = j["n"].as_u64().unwrap();
                let allow = j["mode"].as_str().unwrap() == "allow";
                let up = j["up"].as_u64().unwrap_or(0) as usize;
                let (verdict, out) = match f.history_proof(&label, &claims, &past, &future).await {
                    None => ("unbuildable".to_string(), json!([])),
                    Some(mut p) => {
                        if up > 0 {
                            // absences of future markers "proved" from shallow anchors where the version is present
                            for (i, v) in future.iter().enumerate() {
                                let nl = f.vrf.get_node_label::<TC>(&label, VersionFreshness::Fresh, *v).await.unwrap();
                                if let Some(nm) = f.shallow_nonmembership(nl, up).await {
                                    p.non_existence_of_future_marker_proofs[i] = nm;
                                }
                            }
                        }
                        f.verify_history(root, e, &label, p, n, allow, conc)
                    }
                };
                tr.emit(json!({"ev": "forge_history", "label": j["label"], "claims": j["claims"], "past": past, "future": future, "n": n,
                    "mode": j["mode"], "verdict": verdict, "out": out, "tag": j["tag"].as_str().unwrap_or(""), "up": up}));
            }
            "lookup_mix" => {
                // an honest-shaped proof for `label` in which one sub-proof (with its VRF proof) is taken from `other`
                let other = conc.label(j["other"].as_str().unwrap());
                let c = &j["claim"];
                let (val, ver, ep) = (conc.value(c[0].as_str().unwrap()), c[1].as_u64().unwrap(), c[2].as_u64().unwrap());
                let marker = 1u64 << (63 - ver.max(1).leading_zeros());
                let part = j["part"].as_str().unwrap();
                let verdict = match (f.lookup_proof(&label, ver, &val, ep, marker).await, f.lookup_proof(&other, j["over"].as_u64().unwrap_or(1), &val, ep, 1).await) {
                    (Some(mut p), Some(q)) => {
                        match part {
                            "existence" => {
                                p.existence_proof = q.existence_proof;
                                p.existence_vrf_proof = q.existence_vrf_proof;
                            }
                            "existence_path_only" => p.existence_proof = q.existence_proof,
                            "marker" => {
                                p.marker_proof = q.marker_proof;
                                p.marker_vrf_proof = q.marker_vrf_proof;
                            }
                            "freshness" => {
                                p.freshness_proof = q.freshness_proof;
                                p.freshness_vrf_proof = q.freshness_vrf_proof;
                            }
                            _ => p.commitment_nonce = q.commitment_nonce,
                        }
                        f.verify_lookup(root, e, &label, p, conc).0
                    }
                    _ => "unbuildable".to_string(),
                };
                tr.emit(json!({"ev": "forge_mix", "label": j["label"], "other": j["other"], "part": part, "claim": c, "verdict": verdict}));
            }
            other => panic!("unknown forge job {other}"),
        }
    }
}

/// `akdv forge`: behaviours {"cfg","conc","leaves":[...],"E":e,"jobs":[...]} on dishonest trees
pub async fn run_dishonest<TC: HasRef>(b: &Value, tr: &mut Tracer) {
    let mut conc = Conc::new(b["conc"].as_u64().unwrap_or(0));
    for v in ["x", "y", "z", "e"] {
        conc.value(v);
    }
    let e = b["E"].as_u64().unwrap();
    let f = Forge::<TC>::build_dishonest(&mut conc, &b["leaves"], e).await;
    tr.emit(json!({"ev": "dtree", "id": b["id"], "cfg": TC::NAME, "leaves": b["leaves"], "E": e}));
    run_jobs(&f, &mut conc, e, &b["jobs"], tr).await;
}

pub fn main_forge(args: &[String]) {
    let input = arg_val(args, "--in").expect("--in");
    let out = arg_val(args, "--out").expect("--out");
    let threads: usize = arg_val(args, "--threads").map(|s| s.parse().unwrap()).unwrap_or(8);
    let behaviours = read_ndjson(&input);
    // a panic inside a verifier is caught per call; silence the default hook's noise
    std::panic::set_hook(Box::new(|_| {}));
    let (n, total) = crate::dirdrv::run_parallel(behaviours, &out, threads, |b| async move {
        let mut tr = Tracer::new();
        match b["cfg"].as_str().unwrap_or("wa") {
            "wa" => run_dishonest::<Wa>(&b, &mut tr).await,
            _ => run_dishonest::<Exp>(&b, &mut tr).await,
        }
        tr
    });
    println!("{}", json!({"behaviours": n, "events": total}));
}
