"""Shared machinery of /verif/bin/check: building the harness from /repo's working tree,
running TLC (model checking and trace validation), known-findings handling, evidence files."""
import json, os, re, subprocess, sys, time, shutil, glob, concurrent.futures

VERIF = os.environ.get("VERIF_ROOT", "/verif")   # (a scratch copy for development sets VERIF_ROOT; registered commands never do)
SPEC = f"{VERIF}/spec"
HARNESS = f"{VERIF}/harness"
WORK = f"{VERIF}/work"
EVID = f"{VERIF}/evidence"
BIN = f"{HARNESS}/target/release/akdv"
BIN_PLAIN = f"{HARNESS}/target-plain/release/akdv"
NCPU = os.cpu_count() or 8

class ToolError(Exception):
    pass

def log(*a):
    print(*a, file=sys.stderr, flush=True)

def sh(cmd, timeout=None, env=None, cwd=None):
    e = dict(os.environ)
    if env:
        e.update(env)
    p = subprocess.run(cmd, shell=isinstance(cmd, str), capture_output=True, text=True, timeout=timeout, env=e, cwd=cwd)
    return p.returncode, p.stdout, p.stderr

def build_harness(plain=False):
    """(Re)build the harness against /repo's current working tree (path dependency => cargo rebuilds
    whatever changed). A compile failure of the code under test is a tool error, not a violation."""
    env = {"CARGO_NET_OFFLINE": "true"}
    cmd = "cargo build --release --offline"
    if plain:
        cmd += " --no-default-features --target-dir target-plain"
    t0 = time.time()
    rc, out, err = sh(cmd, cwd=HARNESS, env=env, timeout=1800)
    if rc != 0:
        log(err[-4000:])
        raise ToolError("harness build failed")
    log(f"[build] harness{' (plain)' if plain else ''} ok in {time.time()-t0:.1f}s")
    return BIN_PLAIN if plain else BIN

def workdir(name):
    d = f"{WORK}/{name}"
    shutil.rmtree(d, ignore_errors=True)
    os.makedirs(d, exist_ok=True)
    return d

# ---------------------------------------------------------------- TLC model checking

def unescape_tla_string(s):
    return s.replace('\\"', '"').replace("\\\\", "\\")

REPLAY_RE = re.compile(r'^<<"(REPLAY|[A-Z-]+)", "(.*)">>$')

def run_tlc_mc(module, cfg, wd, workers=8, timeout=900, simulate=None, extra_env=None, heap="6g", coverage=False):
    """Run TLC on spec/<module>.tla with spec/<cfg>. Returns dict with counts, exported JSON lines
    (tag -> list), whether an invariant/property was violated, and the raw output path."""
    md = f"{wd}/md_{cfg.replace('.cfg','')}"
    out = f"{wd}/tlc_{cfg.replace('.cfg','')}.out"
    env = {"JAVA_TOOL_OPTIONS": f"-Xss512m -Xmx{heap}"}
    if extra_env:
        env.update(extra_env)
    cmd = f"timeout {timeout} tlc -workers {workers} -metadir {md} -cleanup -noGenerateSpecTE"
    if coverage:
        cmd += " -coverage 1"
    if simulate:
        cmd += f" -simulate {simulate}"
    cmd += f" -config {cfg} {module}.tla > {out} 2>&1"
    t0 = time.time()
    rc, _, _ = sh(cmd, cwd=SPEC, env=env, timeout=timeout + 60)
    res = {"rc": rc, "out": out, "wall": time.time() - t0, "export": {}, "generated": 0, "distinct": 0,
           "violation": None, "cmd": cmd.split(" > ")[0]}
    with open(out, errors="replace") as f:
        for line in f:
            line = line.rstrip("\n")
            m = REPLAY_RE.match(line)
            if m:
                res["export"].setdefault(m.group(1), []).append(unescape_tla_string(m.group(2)))
                continue
            m = re.match(r"^(\d+) states generated, (\d+) distinct states found", line)
            if m:
                res["generated"], res["distinct"] = int(m.group(1)), int(m.group(2))
            if line.startswith("Error: Invariant") or line.startswith("Error: Action property") or "is violated" in line or "was violated" in line:
                res["violation"] = (res["violation"] or "") + line + "\n"
            if line.startswith("Error:") and res["violation"] is None and "violated" not in line:
                res.setdefault("errors", []).append(line)
    shutil.rmtree(md, ignore_errors=True)
    if rc == 124:
        raise ToolError(f"TLC timed out on {module}/{cfg}")
    if rc not in (0,) and res["violation"] is None:
        # rc 12 = safety violation, 13 = liveness; anything else without a violation line is a tool error
        tail = "".join(open(out, errors="replace").readlines()[-30:])
        raise ToolError(f"TLC failed on {module}/{cfg} rc={rc}\n{tail}")
    return res

# ---------------------------------------------------------------- trace validation

def _validate_one(args):
    module, cfg, trace, md = args
    env = {"TRACE": trace, "JAVA_TOOL_OPTIONS": "-Xss1g -Xmx3g -Dtlc2.tool.queue.IStateQueue=StateDeque"}
    out = trace + ".tlc.out"
    cmd = f"timeout 1500 tlc -workers 1 -metadir {md} -cleanup -noGenerateSpecTE -config {cfg} {module}.tla > {out} 2>&1"
    rc, _, _ = sh(cmd, cwd=SPEC, env=env, timeout=1600)
    accepted, rejected, err = None, None, None
    with open(out, errors="replace") as f:
        for line in f:
            if line.startswith('<<"TRACE-ACCEPTED"'):
                accepted = int(re.findall(r"\d+", line)[0])
            elif line.startswith('<<"TRACE-REJECTED"'):
                m = re.match(r'^<<"TRACE-REJECTED", (\d+), "(.*)">>$', line.rstrip("\n"))
                if m:
                    rejected = (int(m.group(1)), unescape_tla_string(m.group(2)))
                else:
                    rejected = (0, line)
            elif line.startswith("Error:") and "Postcondition" not in line and "postcondition" not in line:
                err = (err or "") + line
    shutil.rmtree(md, ignore_errors=True)
    return {"trace": trace, "rc": rc, "accepted": accepted, "rejected": rejected, "error": err, "out": out}

def split_trace(path, chunk):
    """Split a trace file into pieces of about `chunk` events, cutting only where a behaviour starts
    (TLC's cost per step grows with the state it carries along a file, so very long files are slow).
    State that a trace specification carries across behaviours (memo tables) is then per piece."""
    pieces, cur, n = [], None, 0
    with open(path) as f:
        for line in f:
            boundary = '"ev":"reset"' in line or '"ev":"dtree"' in line
            if cur is None or (boundary and n >= chunk):
                if cur is not None:
                    cur.close()
                name = f"{path}.part{len(pieces)}.ndjson"
                pieces.append(name)
                cur, n = open(name, "w"), 0
            cur.write(line)
            n += 1
    if cur is not None:
        cur.close()
    return pieces

def validate_traces(module, cfg, traces, wd, chunk=None):
    """Validate each trace file with its own TLC (single worker) in parallel."""
    traces = [t for t in traces if os.path.getsize(t) > 0]
    if chunk:
        parts = []
        for t in traces:
            parts += split_trace(t, chunk) if count_lines(t) > chunk * 3 // 2 else [t]
        traces = parts
    jobs = [(module, cfg, t, f"{wd}/tmd_{i}") for i, t in enumerate(traces)]
    results = []
    with concurrent.futures.ThreadPoolExecutor(max_workers=min(NCPU, 16)) as ex:
        for r in ex.map(_validate_one, jobs):
            results.append(r)
    return results

def count_lines(path):
    n = 0
    with open(path) as f:
        for _ in f:
            n += 1
    return n

def behaviour_of_line(trace, lineno):
    """Return the lines of the behaviour (from its reset event) containing 1-based line `lineno`."""
    lines = open(trace).read().splitlines()
    start = lineno - 1
    while start > 0 and '"ev":"reset"' not in lines[start] and '"ev":"dtree"' not in lines[start]:
        start -= 1
    end = lineno
    while end < len(lines) and '"ev":"reset"' not in lines[end] and '"ev":"dtree"' not in lines[end]:
        end += 1
    return lines[start:end], lineno - start

# ---------------------------------------------------------------- known findings

def load_known():
    p = f"{VERIF}/known_findings.jsonl"
    out = []
    if os.path.exists(p):
        for l in open(p):
            l = l.strip()
            if l:
                out.append(json.loads(l))
    return out

# ---------------------------------------------------------------- evidence / verdicts

class Check:
    def __init__(self, pid, level):
        self.pid = pid
        self.level = level
        self.tier = os.environ.get("VERIF_TIER", "quick")
        self.seed = int(os.environ.get("VERIF_SEED", "1"))
        self.t0 = time.time()
        self.violations = []      # list of (what, replay path)
        self.known = []           # KNOWN-FINDING lines printed
        self.cov = {"states": 0, "transitions": 0, "traces_validated_against_impl": 0, "evaluations": 0,
                    "distinct_nontrivial": 0, "samples": [], "rule": "", "checker_cmd": "", "notes": []}
        self.assumptions = []
        self.wd = workdir(f"{pid}_{self.tier}")
        os.makedirs(f"{VERIF}/replay", exist_ok=True)

    def add_mc(self, res):
        self.cov["states"] += res["distinct"]
        self.cov["transitions"] += res["generated"]
        self.cov["checker_cmd"] = (self.cov["checker_cmd"] + " ; " if self.cov["checker_cmd"] else "") + res["cmd"]

    def violation(self, what, replay_obj):
        n = len(self.violations) + 1
        path = f"{VERIF}/replay/{self.pid}_{self.tier}_{n}.json"
        with open(path, "w") as f:
            json.dump({"property": self.pid, "what": what, "replay": replay_obj, "seed": self.seed, "tier": self.tier}, f, indent=1)
        self.violations.append((what, path))
        print(f"VIOLATION property={self.pid} replay={path}", flush=True)
        log(f"  -> {what}")

    def known_finding(self, what):
        line = f"KNOWN-FINDING: property={self.pid} {what}"
        if line not in self.known:
            self.known.append(line)
            print(line, flush=True)

    def handle_validation(self, results, label=""):
        """Fold trace-validation results in: accepted behaviours are counted; a rejection is a violation
        whose replay artefact is the rejected behaviour with the first unmatched event."""
        for r in results:
            if r["error"] and r["accepted"] is None and r["rejected"] is None:
                raise ToolError(f"TLC error validating {r['trace']}: {r['error']}  (see {r['out']})")
            nb = 0
            with open(r["trace"]) as f:
                for l in f:
                    if '"ev":"reset"' in l or '"ev":"dtree"' in l:
                        nb += 1
            if r["accepted"] is not None:
                self.cov["traces_validated_against_impl"] += nb
            elif r["rejected"] is not None:
                lineno, ev = r["rejected"]
                beh, off = behaviour_of_line(r["trace"], lineno)
                # behaviours before the rejected one were accepted
                before = 0
                with open(r["trace"]) as f:
                    for i, l in enumerate(f):
                        if i >= lineno - 1:
                            break
                        if '"ev":"reset"' in l or '"ev":"dtree"' in l:
                            before += 1
                self.cov["traces_validated_against_impl"] += max(0, before - 1)
                self.violation(f"{label}trace rejected by TLC at event {off} of the behaviour: {ev}",
                               {"trace_file": r["trace"], "line": lineno, "behaviour": [json.loads(x) for x in beh],
                                "first_unmatched_event": json.loads(ev) if ev.startswith("{") else ev})
            else:
                raise ToolError(f"TLC gave no verdict for {r['trace']} (see {r['out']})")

    def finish(self):
        wall = time.time() - self.t0
        cov = self.cov
        if not cov["samples"]:
            cov["samples"] = ["(none)"]
        cov["known_findings_seen"] = self.known
        ev = {"property_id": self.pid, "tier": self.tier if self.tier in ("quick", "thorough") else "quick",
              "seed": self.seed, "level": self.level, "coverage": cov, "assumptions": self.assumptions,
              "wall_s": round(wall, 1), "violations": len(self.violations)}
        os.makedirs(EVID, exist_ok=True)
        with open(f"{EVID}/{self.pid}.json", "w") as f:
            json.dump(ev, f, indent=1)
        log(f"[{self.pid}] {self.tier} done in {wall:.1f}s: states={cov['states']} transitions={cov['transitions']} "
            f"traces={cov['traces_validated_against_impl']} evals={cov['evaluations']} violations={len(self.violations)}")
        return 1 if self.violations else 0
