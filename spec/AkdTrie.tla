------------------------------ MODULE AkdTrie ------------------------------
(***************************************************************************)
(* The epoch-versioned compressed binary trie ("Merkle Patricia") of akd:  *)
(* node records with two versions, batch insertion, membership and         *)
(* non-membership proofs and their verifiers, the append-only proof walk   *)
(* and the auditor.  Transcribed from                                      *)
(*   akd/src/append_only_zks.rs  (batch_insert_nodes, recursive_batch_     *)
(*       insert_nodes, get_lcp_node_label_with_membership_proof,           *)
(*       get_non_membership_proof, get_append_only_proof_helper)           *)
(*   akd/src/tree_node.rs        (determine_node_to_get, write_to_storage, *)
(*       set_child, update_hash)                                           *)
(*   akd_core/src/verify/base.rs (verify_membership, verify_nonmembership) *)
(*   akd/src/auditor.rs          (verify_consecutive_append_only)          *)
(* Hashes are injective term constructors:                                 *)
(*   <<"LH", v, e>>          leaf value v hashed with its epoch            *)
(*   <<"N", lv, ll, rv, rl>> parent of (value, label) pairs                *)
(*   <<"R", v>>              published root hash                            *)
(*   <<"EH">> / EmptyLabel   value / label of a missing child of the root  *)
(*   <<"ER">>                value of the root of the empty tree           *)
(*   <<"V", i>>              a raw leaf value (commitment)                 *)
(* (every value is a tagged tuple so that TLC can compare any two of them) *)
(***************************************************************************)
EXTENDS AkdLabels, TLC

CONSTANTS PrevEpochChecked,     \* TRUE: determine_node_to_get refuses a previous version newer than the target (as repaired)
          ChildPrefixChecked,   \* TRUE: verify_nonmembership rejects when a child is a prefix of the label (as repaired)
          PrefixFreeChecked,    \* TRUE: the auditor rejects proofs whose labels are not prefix-free (as repaired)
          TopLabelChecked       \* TRUE: verify_membership requires the path to end at the root label (as repaired)

None == <<2>>            \* absent child label (not a bit string)
EmptyLabel == <<3>>      \* TC::empty_label(): label of a missing child of the root, length 0 in the code
NoNode == [type |-> "none"]
ErrNode == [type |-> "err"]

MaxOf(a, b) == IF a >= b THEN a ELSE b
Min2(a, b) == IF a <= b THEN a ELSE b

MkNode(label, le, md, parent, type, left, right, hash) ==
  [label |-> label, last_epoch |-> le, min_desc |-> md, parent |-> parent, type |-> type,
   left |-> left, right |-> right, hash |-> hash]

EH == <<"EH">>           \* TC::empty_node_hash()
ER == <<"ER">>           \* TC::empty_root_value()
ED == <<"ED">>           \* EMPTY_DIGEST placeholder of a freshly created interior node
NewRoot == MkNode(<<>>, 0, 0, <<>>, "root", None, None, ER)
NewInterior(label, e) == MkNode(label, e, e, EmptyLabel, "interior", None, None, ED)
NewLeaf(label, value, e) == MkNode(label, e, e, EmptyLabel, "leaf", None, None, value)

EmptyStore == (<<>> :> [latest |-> NewRoot, prev |-> NoNode])
EmptyAzks == [epoch |-> 0, num |-> 1]

(* value / label a node contributes to its parent's hash (node_to_azks_value / node_to_label) *)
Val(n, mode) ==
  IF n.type \in {"none", "err"} THEN EH
  ELSE IF n.type = "leaf" /\ mode = "dir" THEN <<"LH", n.hash, n.last_epoch>>
  ELSE n.hash
Lbl(n) == IF n.type \in {"none", "err"} THEN EmptyLabel ELSE n.label

H(lv, ll, rv, rl) == <<"N", lv, ll, rv, rl>>
RootDigest(v) == <<"R", v>>

---------------------------------------------------------------------------
(* storage of node records *)

(* TreeNodeWithPreviousValue::determine_node_to_get *)
Pick(rec, t) ==
  IF rec.latest.last_epoch > t
    THEN IF rec.prev.type = "none" THEN NoNode
         ELSE IF PrevEpochChecked /\ rec.prev.last_epoch > t THEN ErrNode
         ELSE rec.prev
    ELSE rec.latest

NodeAt(st, lab, t) == IF lab \in DOMAIN st THEN Pick(st[lab], t) ELSE NoNode

(* TreeNode::get_child_node (a not-found child is treated as absent) *)
Child(st, n, dir, t) ==
  LET c == IF dir = "L" THEN n.left ELSE n.right IN
  IF c = None THEN NoNode ELSE NodeAt(st, c, t)

(* TreeNode::write_to_storage *)
Write(st, n, isNew) ==
  LET target == IF n.last_epoch > 0 THEN n.last_epoch - 1 ELSE 0
      p == IF isNew THEN NoNode ELSE NodeAt(st, n.label, target)
      previous == IF p.type \in {"none", "err"} THEN NoNode ELSE p
  IN (n.label :> [latest |-> n, prev |-> previous]) @@ st

(* TreeNode::set_child: returns the updated parent and child *)
SetChild(par, ch) ==
  LET d == Dir(par.label, ch.label)
      p1 == IF d = "L" THEN [par EXCEPT !.left = ch.label] ELSE [par EXCEPT !.right = ch.label]
      p2 == [p1 EXCEPT !.last_epoch = MaxOf(par.last_epoch, ch.last_epoch),
                       !.min_desc = IF par.min_desc = 0 THEN ch.min_desc ELSE Min2(par.min_desc, ch.min_desc)]
  IN [p |-> p2, c |-> [ch EXCEPT !.parent = par.label]]

(* TreeNode::update_hash *)
UpdateHash(st, n, mode) ==
  IF n.type = "leaf" THEN n
  ELSE LET l == Child(st, n, "L", n.last_epoch)
           r == Child(st, n, "R", n.last_epoch)
       IN [n EXCEPT !.hash = H(Val(l, mode), Lbl(l), Val(r, mode), Lbl(r))]

---------------------------------------------------------------------------
(* Azks::recursive_batch_insert_nodes.  S is a set of elements [label, value]. *)
(* Returns [st, node, isNew, num]; the caller writes `node`.                   *)

ElemLabels(S) == { x.label : x \in S }

RECURSIVE Ins(_, _, _, _, _)
Ins(st, nl, S, e, mode) ==
  LET ph1 ==
        IF nl # None
          THEN LET existing == NodeAt(st, nl, e)
                   lcp == Lcp(nl, SetLcp(ElemLabels(S)))
               IN IF Len(lcp) < Len(nl)
                    THEN (* Case 1a: decompress: push the existing node down *)
                         LET sc == SetChild(NewInterior(lcp, e), existing)
                         IN [st |-> Write(st, sc.c, FALSE), cur |-> sc.p, isNew |-> TRUE, num |-> 1]
                    ELSE (* Case 1b *)
                         [st |-> st, cur |-> existing, isNew |-> FALSE, num |-> 0]
          ELSE IF Cardinality(S) = 1
                 THEN (* Case 2: new leaf *)
                      LET x == CHOOSE x \in S : TRUE
                      IN [st |-> st, cur |-> NewLeaf(x.label, x.value, e), isNew |-> TRUE, num |-> 1]
                 ELSE (* Case 3: new interior node at the common prefix *)
                      [st |-> st, cur |-> NewInterior(SetLcp(ElemLabels(S)), e), isNew |-> TRUE, num |-> 1]
      SL == { x \in S : Dir(ph1.cur.label, x.label) = "L" }    \* partition drops "Invalid" members
      SR == { x \in S : Dir(ph1.cur.label, x.label) = "R" }
      aL == IF SL = {} THEN [st |-> ph1.st, cur |-> ph1.cur, num |-> ph1.num]
            ELSE LET r == Ins(ph1.st, ph1.cur.left, SL, e, mode)
                     sc == SetChild(ph1.cur, r.node)
                 IN [st |-> Write(r.st, sc.c, r.isNew), cur |-> sc.p, num |-> ph1.num + r.num]
      aR == IF SR = {} THEN aL
            ELSE LET r == Ins(aL.st, aL.cur.right, SR, e, mode)
                     sc == SetChild(aL.cur, r.node)
                 IN [st |-> Write(r.st, sc.c, r.isNew), cur |-> sc.p, num |-> aL.num + r.num]
  IN [st |-> aR.st, node |-> UpdateHash(aR.st, aR.cur, mode), isNew |-> ph1.isNew, num |-> aR.num]

(* Azks::batch_insert_nodes at epoch e (= azks.epoch + 1) *)
InsertEpoch(st, S, e, mode) ==
  IF S = {} THEN [st |-> st, num |-> 0]
  ELSE LET r == Ins(st, <<>>, S, e, mode) IN [st |-> Write(r.st, r.node, r.isNew), num |-> r.num]

InsertBatch(st, az, S, mode) ==
  LET r == InsertEpoch(st, S, az.epoch + 1, mode)
  IN [st |-> r.st, az |-> [epoch |-> az.epoch + 1, num |-> az.num + r.num]]

RootHashAt(st, t) == RootDigest(NodeAt(st, <<>>, t).hash)

---------------------------------------------------------------------------
(* The canonical tree over a set of leaves [label, value, ep]: the oracle.  *)

LeafLabels(L) == { x.label : x \in L }
MaxEp(L) == CHOOSE m \in { x.ep : x \in L } : \A x \in L : x.ep <= m
MinEp(L) == CHOOSE m \in { x.ep : x \in L } : \A x \in L : x.ep >= m
Side(L, p, b) == { x \in L : Len(x.label) > Len(p) /\ IsPrefixOf(p, x.label) /\ x.label[Len(p) + 1] = b }
SubLabel(L) == IF Cardinality(L) = 1 THEN (CHOOSE x \in L : TRUE).label ELSE SetLcp(LeafLabels(L))

RECURSIVE CanonVal(_, _)
CanonVal(L, mode) ==     \* the value the subtree over L (non-empty) contributes to its parent
  IF Cardinality(L) = 1
    THEN LET x == CHOOSE x \in L : TRUE IN IF mode = "dir" THEN <<"LH", x.value, x.ep>> ELSE x.value
    ELSE LET p == SetLcp(LeafLabels(L))
             L0 == Side(L, p, 0)
             L1 == Side(L, p, 1)
         IN H(CanonVal(L0, mode), SubLabel(L0), CanonVal(L1, mode), SubLabel(L1))

SideVal(L, mode) == IF L = {} THEN EH ELSE CanonVal(L, mode)
SideLbl(L) == IF L = {} THEN EmptyLabel ELSE SubLabel(L)
ChildLbl(L) == IF L = {} THEN None ELSE SubLabel(L)

CanonRootVal(L, mode) ==
  IF L = {} THEN ER
  ELSE LET L0 == Side(L, <<>>, 0)
           L1 == Side(L, <<>>, 1)
       IN H(SideVal(L0, mode), SideLbl(L0), SideVal(L1, mode), SideLbl(L1))

CanonRoot(L, mode) == RootDigest(CanonRootVal(L, mode))

(* projected node: what proofs and audits can observe of a node *)
ViewOf(n) == [label |-> n.label, type |-> n.type, left |-> n.left, right |-> n.right,
              last_epoch |-> n.last_epoch, min_desc |-> n.min_desc, hash |-> n.hash]

RECURSIVE CanonSubViews(_, _)
CanonSubViews(L, mode) ==
  IF Cardinality(L) = 1
    THEN LET x == CHOOSE x \in L : TRUE
         IN { [label |-> x.label, type |-> "leaf", left |-> None, right |-> None,
               last_epoch |-> x.ep, min_desc |-> x.ep, hash |-> x.value] }
    ELSE LET p == SetLcp(LeafLabels(L))
             L0 == Side(L, p, 0)
             L1 == Side(L, p, 1)
         IN { [label |-> p, type |-> "interior", left |-> SubLabel(L0), right |-> SubLabel(L1),
               last_epoch |-> MaxEp(L), min_desc |-> MinEp(L), hash |-> CanonVal(L, mode)] }
            \cup CanonSubViews(L0, mode) \cup CanonSubViews(L1, mode)

CanonViews(L, mode) ==
  LET L0 == Side(L, <<>>, 0)
      L1 == Side(L, <<>>, 1)
  IN { [label |-> <<>>, type |-> "root", left |-> ChildLbl(L0), right |-> ChildLbl(L1),
        last_epoch |-> IF L = {} THEN 0 ELSE MaxEp(L), min_desc |-> IF L = {} THEN 0 ELSE MinEp(L),
        hash |-> CanonRootVal(L, mode)] }
     \cup (IF L0 = {} THEN {} ELSE CanonSubViews(L0, mode))
     \cup (IF L1 = {} THEN {} ELSE CanonSubViews(L1, mode))

(* the stored tree as seen by a reader at epoch t *)
RECURSIVE Reach(_, _, _)
Reach(st, lab, t) ==
  LET n == NodeAt(st, lab, t) IN
  IF n.type \in {"none", "err"}
    THEN { [label |-> lab, type |-> n.type, left |-> None, right |-> None, last_epoch |-> 0, min_desc |-> 0, hash |-> EH] }
  ELSE { ViewOf(n) }
       \cup (IF n.left = None THEN {} ELSE Reach(st, n.left, t))
       \cup (IF n.right = None THEN {} ELSE Reach(st, n.right, t))

StoreView(st, t) == Reach(st, <<>>, t)

---------------------------------------------------------------------------
(* Membership / non-membership proofs: generation (append_only_zks.rs:1240-1315, 818-869) *)

Other(d) == IF d = "L" THEN "R" ELSE "L"
Elem(n, mode) == [label |-> Lbl(n), value |-> Val(n, mode)]

RECURSIVE WalkDown(_, _, _, _, _, _)
WalkDown(st, t, q, cur, prev, sibs) ==
  LET d == Dir(cur.label, q) IN
  IF q = cur.label \/ d = "I" THEN [cur |-> cur, prev |-> prev, sibs |-> sibs]
  ELSE LET ch == Child(st, cur, d, t) IN
       IF ch.type \in {"none", "err"} THEN [cur |-> cur, prev |-> prev, sibs |-> sibs]   \* root without a child there
       ELSE WalkDown(st, t, q, ch, cur,
                     Append(sibs, [label |-> cur.label, sib |-> Elem(Child(st, cur, Other(d), t), "dir"), dir |-> d]))

ButLast(s) == IF Len(s) = 0 THEN s ELSE SubSeq(s, 1, Len(s) - 1)

(* returns the membership proof of the deepest node on the path to q *)
MemProof(st, t, q) ==
  LET root == NodeAt(st, <<>>, t)
      w == WalkDown(st, t, q, root, root, <<>>)
      cur == IF w.cur.label = q THEN w.cur ELSE w.prev
      sibs == IF w.cur.label = q THEN w.sibs ELSE ButLast(w.sibs)
  IN [label |-> cur.label, hash_val |-> Val(cur, "dir"), sibs |-> sibs]

NonMemProof(st, t, q) ==
  LET mp == MemProof(st, t, q)
      n == NodeAt(st, mp.label, t)
  IN [label |-> q, longest_prefix |-> n.label,
      children |-> << Elem(Child(st, n, "L", t), "dir"), Elem(Child(st, n, "R", t), "dir") >>,
      mp |-> mp]

(* verification (verify/base.rs) *)
RECURSIVE FoldUp(_, _, _, _)
FoldUp(sibs, i, val, lab) ==      \* returns <<value, label>> reached at the top of the path
  IF i = 0 THEN <<val, lab>>
  ELSE LET s == sibs[i]
           v == IF s.dir = "L" THEN H(val, lab, s.sib.value, s.sib.label)
                               ELSE H(s.sib.value, s.sib.label, val, lab)
       IN FoldUp(sibs, i - 1, v, s.label)

VerifyMem(root, p) ==
  LET top == FoldUp(p.sibs, Len(p.sibs), p.hash_val, p.label) IN
  /\ RootDigest(top[1]) = root
  /\ TopLabelChecked => top[2] = <<>>

(* NodeLabel::get_longest_common_prefix with the empty-label special case *)
LcpTC(a, b) == IF a = EmptyLabel \/ b = EmptyLabel THEN EmptyLabel ELSE Lcp(a, b)
(* is_prefix_of as the code computes it: the empty label has length 0 *)
IsPrefixTC(a, b) == IF a = EmptyLabel THEN TRUE ELSE IsPrefixOf(a, b)

VerifyNonMem(root, p) ==
  LET c0 == p.children[1]
      c1 == p.children[2]
      l0 == LcpTC(c0.label, c1.label)
      lcpc == IF l0 = EmptyLabel THEN <<>> ELSE l0
  IN /\ p.label # c0.label /\ p.label # c1.label
     /\ ChildPrefixChecked =>
          /\ ~(c0.label # EmptyLabel /\ IsPrefixTC(c0.label, p.label))
          /\ ~(c1.label # EmptyLabel /\ IsPrefixTC(c1.label, p.label))
     /\ IsPrefixTC(p.longest_prefix, p.label)
     /\ p.longest_prefix = lcpc
     /\ lcpc = p.mp.label
     /\ H(c0.value, c0.label, c1.value, c1.label) = p.mp.hash_val
     /\ VerifyMem(root, p.mp)

---------------------------------------------------------------------------
(* The adversary of C05: a prover holding the tree assembles proofs from real nodes. *)
(* A candidate is described by [a: anchor label, m: move, i: index, x: other label]. *)

NodeLabelsAt(st, t) == { v.label : v \in { w \in StoreView(st, t) : w.type \notin {"none", "err"} } }

Desc(a, m, i, x) == [a |-> a, m |-> m, i |-> i, x |-> x]

(* raw material of the prover, computed once per tree: every node's honest path, element, children *)
Material(st, t) ==
  LET N == NodeLabelsAt(st, t) IN
  [ N |-> N,
    root |-> RootHashAt(st, t),
    mp |-> TLCEval([a \in N |-> MemProof(st, t, a)]),
    el |-> TLCEval([a \in N |-> Elem(NodeAt(st, a, t), "dir")]),
    ch |-> TLCEval([a \in N |-> LET n == NodeAt(st, a, t) IN
                                 << Elem(Child(st, n, "L", t), "dir"), Elem(Child(st, n, "R", t), "dir") >>]) ]

FlipDir(sibs, i) == [sibs EXCEPT ![i] = [@ EXCEPT !.dir = Other(@)]]
ReplSib(sibs, i, e) == [sibs EXCEPT ![i] = [@ EXCEPT !.sib = e]]

NonMemBase(M, q, a) == [label |-> q, longest_prefix |-> a, children |-> M.ch[a], mp |-> M.mp[a]]

NonMemApply(M, q, d) ==
  LET b == NonMemBase(M, q, d.a) IN
  CASE d.m = "none" -> b
    [] d.m = "swap" -> [b EXCEPT !.children = << b.children[2], b.children[1] >>]
    [] d.m = "child" -> [b EXCEPT !.children = [b.children EXCEPT ![d.i] = M.el[d.x]]]
    [] d.m = "hash" -> [b EXCEPT !.mp = [b.mp EXCEPT !.hash_val = M.el[d.x].value]]
    [] d.m = "sib" -> [b EXCEPT !.mp = [b.mp EXCEPT !.sibs = ReplSib(b.mp.sibs, d.i, M.el[d.x])]]
    [] d.m = "dir" -> [b EXCEPT !.mp = [b.mp EXCEPT !.sibs = FlipDir(b.mp.sibs, d.i)]]
    [] d.m = "path" -> [b EXCEPT !.mp = M.mp[d.x]]
    [] d.m = "lp" -> [b EXCEPT !.longest_prefix = d.x]

NonMemDescs(M) ==
  UNION { LET k == Len(M.mp[a].sibs) IN
            { Desc(a, "none", 0, <<>>), Desc(a, "swap", 0, <<>>) }
            \cup { Desc(a, "child", i, x) : i \in {1, 2}, x \in M.N }
            \cup { Desc(a, "hash", 0, x) : x \in M.N }
            \cup { Desc(a, "sib", i, x) : i \in 1..k, x \in M.N }
            \cup { Desc(a, "dir", i, <<>>) : i \in 1..k }
            \cup { Desc(a, "path", 0, x) : x \in M.N }
            \cup { Desc(a, "lp", 0, x) : x \in M.N }
          : a \in M.N }

NonMemAcceptedM(M, q) == { d \in NonMemDescs(M) : VerifyNonMem(M.root, NonMemApply(M, q, d)) }
NonMemAccepted(st, t, q) == NonMemAcceptedM(Material(st, t), q)

MemApply(M, d) ==
  LET b == M.mp[d.a] IN
  CASE d.m = "none" -> b
    [] d.m = "hash" -> [b EXCEPT !.hash_val = M.el[d.x].value]
    [] d.m = "sib" -> [b EXCEPT !.sibs = ReplSib(b.sibs, d.i, M.el[d.x])]
    [] d.m = "dir" -> [b EXCEPT !.sibs = FlipDir(b.sibs, d.i)]
    [] d.m = "label" -> [b EXCEPT !.label = d.x]

MemDescs(M) ==
  UNION { LET k == Len(M.mp[a].sibs) IN
            { Desc(a, "none", 0, <<>>) }
            \cup { Desc(a, "hash", 0, x) : x \in M.N }
            \cup { Desc(a, "sib", i, x) : i \in 1..k, x \in M.N }
            \cup { Desc(a, "dir", i, <<>>) : i \in 1..k }
            \cup { Desc(a, "label", 0, x) : x \in M.N }
          : a \in M.N }

MemAcceptedM(M) == { d \in MemDescs(M) : VerifyMem(M.root, MemApply(M, d)) }
MemAccepted(st, t) == MemAcceptedM(Material(st, t))

(* ground truth: the (label, value) pairs the tree really contains *)
NodeFactsM(M) == { <<a, M.el[a].value>> : a \in M.N }

MemSoundM(M, acc) == \A d \in acc : LET p == MemApply(M, d) IN <<p.label, p.hash_val>> \in NodeFactsM(M)
MemSoundAt(st, t) == LET M == Material(st, t) IN MemSoundM(M, MemAcceptedM(M))

NonMemSoundAt(st, t, q, members) == NonMemAccepted(st, t, q) # {} => q \notin members

---------------------------------------------------------------------------
(* Append-only proofs: the directory's walk (append_only_zks.rs:1062-1177) *)

RECURSIVE AuditHelper(_, _, _, _, _)
AuditHelper(st, latest, n, s, e) ==      \* returns [unchanged, inserted] as sets of elements
  IF n.last_epoch <= s
    THEN IF n.type = "root" THEN [unchanged |-> {}, inserted |-> {}]
         ELSE [unchanged |-> { [label |-> n.label, value |-> Val(n, "dir")] }, inserted |-> {}]
  ELSE IF n.min_desc > e THEN [unchanged |-> {}, inserted |-> {}]
  ELSE IF n.type = "leaf" THEN [unchanged |-> {}, inserted |-> { [label |-> n.label, value |-> n.hash] }]
  ELSE LET l == IF n.left = None THEN [unchanged |-> {}, inserted |-> {}]
                ELSE AuditHelper(st, latest, NodeAt(st, n.left, latest), s, e)
           r == IF n.right = None THEN [unchanged |-> {}, inserted |-> {}]
                ELSE AuditHelper(st, latest, NodeAt(st, n.right, latest), s, e)
       IN [unchanged |-> l.unchanged \cup r.unchanged, inserted |-> l.inserted \cup r.inserted]

(* the single proof for ep -> ep+1, computed on the tree as of `latest` *)
AuditStep(st, latest, ep) == AuditHelper(st, latest, NodeAt(st, <<>>, latest), ep, ep + 1)

(* The auditor (auditor.rs): rebuilds both trees from the proof. `dup` = the proof lists *)
(* some element twice (sets cannot show that).                                          *)
AuditorStartHash(unchanged) == RootHashAt(InsertEpoch(EmptyStore, unchanged, 1, "aud").st, 1)
AuditorEndSet(unchanged, inserted, endEpoch) ==
  unchanged \cup { [label |-> x.label, value |-> <<"LH", x.value, endEpoch>>] : x \in inserted }
AuditorEndHash(unchanged, inserted, endEpoch) ==
  RootHashAt(InsertEpoch(EmptyStore, AuditorEndSet(unchanged, inserted, endEpoch), endEpoch, "aud").st, endEpoch)

AuditorPrefixFree(unchanged, inserted, endEpoch, dup) ==
  LET E == AuditorEndSet(unchanged, inserted, endEpoch) IN
  /\ ~dup
  /\ \A x, y \in E : x # y => ~IsPrefixOf(x.label, y.label)

AuditorAccepts(unchanged, inserted, hs, he, endEpoch, dup) ==
  /\ AuditorStartHash(unchanged) = hs
  /\ PrefixFreeChecked => AuditorPrefixFree(unchanged, inserted, endEpoch, dup)
  /\ AuditorEndHash(unchanged, inserted, endEpoch) = he

(* leaves a root digest commits to, read off the hash term: <<label, value, epoch>> *)
RECURSIVE CommittedIn(_, _)
CommittedIn(lab, v) ==
  IF v[1] = "LH" THEN { <<lab, v[2], v[3]>> }
  ELSE IF v[1] = "N" THEN CommittedIn(v[3], v[2]) \cup CommittedIn(v[5], v[4])
  ELSE {}
CommittedBy(digest) == CommittedIn(<<>>, digest[2])

(* what the rebuilt end tree is made of: the proof elements that survive as its leaves *)
AuditorSurvivors(unchanged, inserted, endEpoch) ==
  LET st == InsertEpoch(EmptyStore, AuditorEndSet(unchanged, inserted, endEpoch), endEpoch, "aud").st IN
  { v.label : v \in { w \in StoreView(st, endEpoch) : w.type = "leaf" } }

(* The adversary of C09 against the tree stored in (st, t): `unchanged` any set of <= MaxU real nodes  *)
(* (label, value as the parent sees it); when that set reproduces the start hash, `inserted` any set  *)
(* of <= MaxI elements over all labels of length 1..D and the given raw values.                         *)
AuditUnchangedChoices(st, t, MaxU) ==
  LET M == Material(st, t) IN
  { { M.el[a] : a \in A } : A \in { B \in SUBSET (M.N \ {<<>>}) : Cardinality(B) <= MaxU } }

AuditInsertedChoices(D, Vals, MaxI) ==
  LET E == { [label |-> q, value |-> v] : q \in (BitStrings(D) \ {<<>>}), v \in Vals } IN
  {{}} \cup (IF MaxI >= 1 THEN { {a} : a \in E } ELSE {})
       \cup (IF MaxI >= 2 THEN { {a, b} : a \in E, b \in E } ELSE {})
       \cup (IF MaxI >= 3 THEN { {a, b, c} : a \in E, b \in E, c \in E } ELSE {})

(* soundness of one accepted candidate: everything the start hash commits to is still committed *)
AuditCandSound(st, t, U, I) ==
  LET hs == RootHashAt(st, t)
      he == AuditorEndHash(U, I, t + 1)
  IN AuditorAccepts(U, I, hs, he, t + 1, FALSE) => CommittedBy(hs) \subseteq CommittedBy(he)

AuditSoundAt(st, t, D, Vals, MaxU, MaxI) ==
  \A U \in AuditUnchangedChoices(st, t, MaxU) :
     IF AuditorStartHash(U) = RootHashAt(st, t)
       THEN \A I \in AuditInsertedChoices(D, Vals, MaxI) : AuditCandSound(st, t, U, I)
       ELSE TRUE      \* rejected whatever is inserted

=============================================================================
