CONSTANTS
  Publishers = {"A", "B"}
  Readers = {"r"}
  RemoteReaders = {}
  LockFreeReaders = {}
  Keys <- KeysSeq
  HasCache = TRUE
  MaxFaults = 1
  InitEpochs = 0
  ReaderLag = 0
  RecheckEpochAfterBegin = TRUE
  FlagHeldThroughDbWrite = TRUE
  RootHashBeforeCommit = TRUE
  PrevEpochChecked = TRUE
  ReadersSeePendingEpoch = FALSE
  RollbackReleasesFlag = TRUE
SPECIFICATION FairSpec
PROPERTIES EveryCallReturns FlagEventuallyReleased
INVARIANTS EpochsDistinct ReturnedPairsStayPublished NoTxnLeftOpen AnswersArePublished
CHECK_DEADLOCK FALSE
