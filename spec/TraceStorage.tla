---------------------------- MODULE TraceStorage ----------------------------
(* Trace validation of a real StorageManager (with or without object cache,   *)
(* any cache timing) against AkdStorage.  The trace specification keeps only  *)
(* database and transaction state (HasCache = FALSE): every recorded read     *)
(* must return what the cache-free specification returns, which is exactly    *)
(* "the cache never changes what a read returns" (C16); inside a transaction  *)
(* it must also equal the same read after commit (C15).                       *)
EXTENDS AkdStorage, Json, IOUtils, SequencesExt

VARIABLE pos
Rec == ndJsonDeserialize(IOEnv.TRACE)
Ev == Rec[pos]
IsEv(e) == pos <= Len(Rec) /\ Ev.ev = e /\ pos' = pos + 1

TInit == Init /\ pos = 1 /\ TLCSet(1, 1)

Same == UNCHANGED svars
NoDup(s) == Len(s) = Cardinality(ToSet(s))
ResOf(S) == IF S = {} THEN "notfound" ELSE "ok"

TReset == /\ IsEv("reset")
          /\ db' = {} /\ txnActive' = FALSE /\ txnMods' = {}
          /\ cacheAzks' = {} /\ cacheMap' = {} /\ canClean' = TRUE /\ rejectNext' = FALSE
          /\ inflight' = {} /\ gen' = 0 /\ extStale' = {}

TSet == IsEv("set") /\ NoDup(Ev.recs) /\ SetRecs(ToSet(Ev.recs), Ev.res)
TBegin == IsEv("begin") /\ Begin(Ev.res)
TCommit ==
  /\ IsEv("commit")
  /\ Commit(Ev.res)
  /\ (Ev.res = "ok" /\ txnMods # {}) =>
        /\ Ev.wrote
        /\ ToSet(Ev.batch) = txnMods /\ NoDup(Ev.batch)          \* exactly the pending records
        /\ Ev.batch[Len(Ev.batch)][1] = "azks"                    \* epoch record last
  /\ (txnActive /\ txnMods = {}) => ~Ev.wrote
TRollback == IsEv("rollback") /\ Rollback(Ev.res)
TTombstone == IsEv("tombstone") /\ Tombstone(Ev.user, Ev.epoch, Ev.res)
TRejectNext == /\ IsEv("reject_next") /\ rejectNext' = TRUE
               /\ UNCHANGED <<db, txnActive, txnMods, cacheAzks, cacheMap, canClean, inflight, gen, extStale>>
TNoop == (IsEv("clean") \/ IsEv("sleep")) /\ Same
(* after a flush every read reflects storage again, whatever another instance wrote before it *)
TFlush == /\ IsEv("flush") /\ extStale' = {}
          /\ UNCHANGED <<db, txnActive, txnMods, cacheAzks, cacheMap, canClean, rejectNext, inflight, gen>>
TExtSet == IsEv("ext_set") /\ ExtWrite(ToSet(Ev.recs))

TGet == /\ IsEv("get")
        /\ (Ev.key \notin extStale => (ToSet(Ev.out) = MGet(Ev.key) /\ Ev.res = ResOf(MGet(Ev.key))))
        /\ txnActive => MGet(Ev.key) = PostGet(Ev.key)
        /\ Same
TDirect == IsEv("direct") /\ ToSet(Ev.out) = Lookup(db, Ev.key) /\ Ev.res = ResOf(Lookup(db, Ev.key)) /\ Same
TBatchGet == /\ IsEv("batch_get") /\ Ev.res = "ok"
             /\ (ToSet(Ev.keys) \cap extStale = {} => ToSet(Ev.out) = MBatchGet(ToSet(Ev.keys))) /\ NoDup(Ev.out)
             /\ Same
TUData == /\ IsEv("udata")
          /\ ToSet(Ev.out) = MUserData(Ev.user) /\ NoDup(Ev.out)
          /\ Ev.res \in {"ok", "notfound"} /\ (Ev.res = "notfound" => MUserData(Ev.user) = {})
          /\ txnActive => MUserData(Ev.user) = PostUserData(Ev.user)
          /\ Same
TUState == /\ IsEv("ustate")
           /\ ToSet(Ev.out) = MUserState(Ev.user, Ev.flag) /\ Ev.res = ResOf(MUserState(Ev.user, Ev.flag))
           /\ txnActive => MUserState(Ev.user, Ev.flag) = PostUserState(Ev.user, Ev.flag)
           /\ Same
TUVersions == /\ IsEv("uversions") /\ Ev.res = "ok"
              /\ ToSet(Ev.out) = MUserVersions(ToSet(Ev.users), Ev.flag) /\ NoDup(Ev.out)
              /\ txnActive => MUserVersions(ToSet(Ev.users), Ev.flag) = PostUserVersions(ToSet(Ev.users), Ev.flag)
              /\ Same

(* the transaction flag as the manager reports it: a state-based exploration visits a state once, so the flag - the one *)
(* piece of state that data reads do not show - is observed with every sweep                                            *)
TTxnState == IsEv("txn_state") /\ Ev.active = txnActive /\ Same

TNext == (TTxnState \/ TReset \/ TSet \/ TBegin \/ TCommit \/ TRollback \/ TTombstone \/ TRejectNext \/ TNoop \/ TFlush \/ TExtSet
          \/ TGet \/ TDirect \/ TBatchGet \/ TUData \/ TUState \/ TUVersions) 

TraceInv == TypeOK

Track == TLCSet(1, IF pos > TLCGet(1) THEN pos ELSE TLCGet(1))
Accepted ==
  LET reached == TLCGet(1) IN
  IF reached = Len(Rec) + 1
    THEN PrintT(<<"TRACE-ACCEPTED", Len(Rec)>>)
    ELSE /\ PrintT(<<"TRACE-REJECTED", reached, ToJson(Rec[reached])>>)
         /\ FALSE
=============================================================================
