"""C18 (VRF binding) and C19 (protobuf wire path) - the parts of them that the TLA+ family can decide (AkdWire.tla)."""
import json, os, random
from vlib import *
import props_dir

def run_wire_harness(chk, behaviours, name):
    binp = build_harness()
    inp = f"{chk.wd}/{name}_behaviours.ndjson"
    with open(inp, "w") as f:
        for b in behaviours:
            f.write(json.dumps(b) + "\n")
    outd = f"{chk.wd}/{name}_traces"
    rc, out, err = sh(f"{binp} wire --in {inp} --out {outd} --threads {min(NCPU, 16)}", timeout=3000)
    if rc != 0:
        raise ToolError(f"harness wire failed rc={rc}: {err[-2000:]}")
    return sorted(glob.glob(f"{outd}/trace_*.ndjson"))

def validate_simple(chk, module, cfg, traces, what):
    results = validate_traces(module, cfg, traces, chk.wd)
    for r in results:
        if r["error"] and r["accepted"] is None and r["rejected"] is None:
            raise ToolError(f"TLC error validating {r['trace']}: {r['error']} (see {r['out']})")
        if r["rejected"] is not None:
            lineno, ev = r["rejected"]
            chk.violation(f"{what}: {ev[:400]}", {"trace_file": r["trace"], "line": lineno, "event": json.loads(ev) if ev.startswith("{") else ev})
        elif r["accepted"] is not None:
            chk.cov["traces_validated_against_impl"] += 1

def c18():
    chk = Check("C18", "exploration")
    res = run_tlc_mc("MCWire", "MCWire.cfg", chk.wd, workers=2, timeout=600)
    if res["violation"]:
        chk.violation(f"TLC: VRF input encoding / decision table violated: {res['violation'][:300]}", {"tlc_output": res["out"]})
    chk.add_mc(res)
    bs = [{"id": i + 1, "cfg": c, "conc": k, "what": "vrf"} for i, (c, k) in enumerate([("wa", 0), ("exp", 0), ("wa", 1), ("exp", 2), ("wa", 3 + chk.seed), ("exp", 4 + chk.seed)])]
    traces = run_wire_harness(chk, bs, "vrf")
    validate_simple(chk, "TraceWire", "TraceWire.cfg", traces, "VRF binding table")
    rows = dets = 0
    for t in traces:
        for line in open(t):
            e = json.loads(line)
            if e["ev"] == "vrf_row":
                rows += 1
                if len(chk.cov["samples"]) < 8 and e["label"] == "a":
                    chk.cov["samples"].append(e)
            elif e["ev"] == "vrf_det":
                dets += 1
    chk.cov["evaluations"] = rows + dets
    chk.cov["distinct_nontrivial"] = rows + dets
    chk.cov["rule"] = ("TLC proves the VRF input encoding injective and the VerifyLabel decision table (accepted iff nothing altered) on a bounded byte "
        "domain. On the real code: for three labels of real directories (plain, empty/1000-byte/prefix-related and seeded byte strings) a correct lookup "
        "proof is verified with exactly one verification input altered at a time (public key, label, version, freshness, claimed node label) - TLC "
        "requires 'accepted iff unaltered'; for 7 structured labels x 2 freshness values x versions {1, 2, 255, 256, 2^32, u64::MAX} the node label from "
        "get_node_label, from the VRF proof and from get_node_labels must agree, be deterministic, 256 bits, verify under the right public key only, "
        "differ under another secret key (labels and commitments), not collide across inputs, and 16 seeded bit flips of the proof bytes must never "
        "verify to a different node label. Every row is a distinct case.")
    chk.cov["exhaustive"] = False
    chk.assumptions += ["ECVRF uniqueness / unforgeability and hash collision resistance are cryptographic assumptions, not decided here",
                        "freshness cannot be altered alone through the public verifier; it is altered by swapping the fresh and stale VRF proofs"]
    return chk.finish()

def c19():
    chk = Check("C19", "exploration")
    res = run_tlc_mc("MCWire", "MCWire.cfg", chk.wd, workers=2, timeout=600)
    chk.add_mc(res)
    nf = 300 if chk.tier == "quick" else 5000
    bs = [{"id": i + 1, "cfg": c, "conc": k, "what": "wire", "seed": chk.seed * 31 + i, "fuzz": nf} for i, (c, k) in enumerate([("wa", 0), ("exp", 0), ("wa", 1), ("exp", 2), ("wa", 2), ("exp", 1)])]
    traces = run_wire_harness(chk, bs, "wire")
    validate_simple(chk, "TraceWire", "TraceWire.cfg", traces, "protobuf decoding")
    # (i) the wire path as one more cell of the replayed histories
    exported = props_dir.export_behaviours(chk, ["MCDirectory_quick.cfg", "MCDirectory_empty.cfg"])
    rnd = random.Random(chk.seed)
    sample = rnd.sample(exported, min(len(exported), 600 if chk.tier == "quick" else 6000))
    dbs = props_dir.make_behaviours(chk, sample, [], cells=[dict(props_dir.DEFAULT_CELL, wire=True)])
    dtraces = props_dir.run_dir_harness(chk, dbs, name="wirecell")
    results = validate_traces("TraceDirectory", "TraceDirectory.cfg", dtraces, chk.wd)
    chk.handle_validation(results)
    muts = fuzz = wires = 0
    kinds = {}
    for t in traces + dtraces:
        for line in open(t):
            e = json.loads(line)
            if e["ev"] == "wire_mut":
                muts += 1
                if len(chk.cov["samples"]) < 6 and e["class"] in ("size", "range", "count"):
                    chk.cov["samples"].append(e)
            elif e["ev"] == "wire_fuzz":
                fuzz += 1
                k = f"{e['kind']}/{e['how']}/{e['res']}"
                kinds[k] = kinds.get(k, 0) + 1
            elif e["ev"] == "wire":
                wires += 1
    chk.cov["evaluations"] = muts + fuzz + wires
    chk.cov["distinct_nontrivial"] = muts + wires
    chk.cov["structured_mutations"] = muts
    chk.cov["fuzzed_encodings"] = fuzz
    chk.cov["fuzz_outcomes"] = kinds
    chk.cov["proofs_round_tripped_through_bytes"] = wires
    chk.cov["rule"] = ("(i) every lookup, history and append-only proof produced in sampled replays of TLC-generated histories is converted to its protobuf "
        "message, to bytes and back, compared for equality and verified again; TraceDirectory requires round trip and identical verification result. "
        "(ii) AkdWire states which malformations must be refused (missing required field, over-long label, wrong-size digest, out-of-range direction, "
        "wrong child count) and which may be accepted (optional field absent, surplus repeated element); each is applied to real messages of every type "
        "(and every nested membership proof) and TLC validates error vs ok, panics being data. (iii) seeded truncations, bit flips and random bytes must "
        "give an error or a proof that verifies to the same result or not at all; audit blob names and blobs round-trip. distinct_nontrivial = structured "
        "mutations + proofs round-tripped.")
    chk.cov["exhaustive"] = False
    chk.assumptions += ["arbitrary byte strings are sampled, not enumerated: that part is fuzzing and is reported as exploration"]
    return chk.finish()

TABLE = {"C18": c18, "C19": c19}
