INIT TInit
NEXT TNext
CONSTRAINT Track
POSTCONDITION Accepted
CHECK_DEADLOCK FALSE
