------------------------------ MODULE TraceTrie ------------------------------
(* Trace validation of real akd trees (built with Azks::batch_insert_nodes    *)
(* over stretched model labels) against AkdTrie.  A `tree` event carries the   *)
(* leaf assignment and the projected real node table; TLC recomputes the       *)
(* specification's store by the transcribed insertion and requires the real    *)
(* table to be identical (and every real hash to equal the reference hash).    *)
(* `mem` / `nonmem` events carry the verdicts of akd's verifiers on honest     *)
(* proofs and on every adversarial candidate; `auditstep` events the real      *)
(* append-only proof of each epoch step.                                       *)
EXTENDS AkdTrie, Json, IOUtils, SequencesExt

CONSTANT D

VARIABLES pos, store, azks, leaves, mode

vars == <<pos, store, azks, leaves, mode>>

Rec == ndJsonDeserialize(IOEnv.TRACE)
Ev == Rec[pos]
IsEv(e) == pos <= Len(Rec) /\ Ev.ev = e /\ pos' = pos + 1

LeafSlots == [1..D -> Bit]
Members == LeafLabels(leaves)
Cur == azks.epoch
Root == RootHashAt(store, Cur)

TInit == pos = 1 /\ store = EmptyStore /\ azks = EmptyAzks /\ leaves = {} /\ mode = "dir" /\ TLCSet(1, 1)

AssignLeaves(a) == { [label |-> a[i][1], value |-> <<"V", a[i][2]>>, ep |-> a[i][3]] : i \in 1..Len(a) }

RECURSIVE BuildUpTo(_, _, _)
BuildUpTo(L, e, m) ==      \* insert the leaves of epochs 1..e, one batch per epoch
  IF e = 0 THEN [st |-> EmptyStore, az |-> EmptyAzks]
  ELSE LET b == BuildUpTo(L, e - 1, m)
           S == { [label |-> x.label, value |-> x.value] : x \in { y \in L : y.ep = e } }
       IN InsertBatch(b.st, b.az, S, m)

Proj(v) == [label |-> v.label, type |-> v.type, left |-> v.left, right |-> v.right,
            le |-> v.last_epoch, md |-> v.min_desc,
            val |-> IF v.type = "leaf" THEN v.hash[2] ELSE 0, hash_ok |-> TRUE]

SameTable(js, views) == ToSet(js) = { Proj(v) : v \in views } /\ Len(js) = Cardinality(views)

TTree ==
  /\ IsEv("tree")
  /\ Ev.res = "ok"
  /\ LET L == AssignLeaves(Ev.assign)
         t == IF L = {} THEN 0 ELSE MaxEp(L)
         b == BuildUpTo(L, t, Ev.mode)
     IN /\ Ev.t = t
        /\ Ev.root_ok
        /\ Ev.num = b.az.num
        /\ SameTable(Ev.nodes, StoreView(b.st, t))
        /\ t > 0 => SameTable(Ev.prev, StoreView(b.st, t - 1))
        /\ Ev.mode = "dir" => StoreView(b.st, t) = CanonViews(L, "dir")    \* specification-side sanity
        /\ store' = b.st /\ azks' = b.az /\ leaves' = L /\ mode' = Ev.mode

Same == UNCHANGED <<store, azks, leaves, mode>>

TMem ==
  /\ IsEv("mem")
  /\ \A i \in 1..Len(Ev.honest) :
       LET h == Ev.honest[i]
           q == h[1]
           p == MemProof(store, Cur, q)
       IN /\ h[2] = (p.label = q)
          /\ h[3] = VerifyMem(Root, p)
          /\ IF q \in Members
               THEN LET x == CHOOSE x \in leaves : x.label = q IN
                    h[2] /\ h[3] /\ h[4] /\ p.hash_val = <<"LH", x.value, x.ep>>
               ELSE ~h[2]
  /\ LET M == Material(store, Cur)
         acc == MemAcceptedM(M)
     IN ToSet(Ev.accepted) = acc /\ MemSoundM(M, acc)
  /\ Same

TNonMem ==
  /\ IsEv("nonmem")
  /\ Ev.honest = VerifyNonMem(Root, NonMemProof(store, Cur, Ev.q))
  /\ leaves # {} => (Ev.honest <=> Ev.q \notin Members)
  /\ LET acc == NonMemAccepted(store, Cur, Ev.q)
     IN ToSet(Ev.accepted) = acc /\ (acc # {} => Ev.q \notin Members)
  /\ Same

TAuditStep ==
  /\ IsEv("auditstep")
  /\ Ev.res = "ok" /\ Ev.accepted /\ Ev.unchanged_hash_ok /\ Ev.epochs_ok
  /\ LET pr == AuditStep(store, Cur, Ev.i) IN
     /\ ToSet(Ev.unchanged) = { e.label : e \in pr.unchanged }
     /\ Len(Ev.unchanged) = Cardinality(pr.unchanged)
     /\ ToSet(Ev.inserted) = { <<e.label, e.value[2]>> : e \in pr.inserted }
     /\ Len(Ev.inserted) = Cardinality(pr.inserted)
  /\ Same

(* C09: the adversarial server against the real auditor; candidates as in AkdTrie!AuditSoundAt *)
TAuditor ==
  /\ IsEv("auditor")
  /\ LET M == Material(store, Cur)
         nIns == Cardinality(AuditInsertedChoices(D, { <<"V", 1>>, <<"V", 2>> }, Ev.max_i))
         UChoices == { A \in SUBSET (M.N \ {<<>>}) : Cardinality(A) <= Ev.max_u }
     IN /\ \A k \in 1..Len(Ev.cands) :
             LET c == Ev.cands[k]
                 U == { M.el[a] : a \in ToSet(c.u) }
                 I == { [label |-> x[1], value |-> <<"V", x[2]>>] : x \in ToSet(c.i) }
                 startOk == AuditorStartHash(U) = Root
             IN /\ c.start_ok = startOk
                /\ c.verdict = (startOk /\ (PrefixFreeChecked => AuditorPrefixFree(U, I, Cur + 1, FALSE)))
                /\ c.start_ok => ToSet(c.survive) = AuditorSurvivors(U, I, Cur + 1)
                /\ c.verdict => CommittedBy(Root) \subseteq CommittedBy(AuditorEndHash(U, I, Cur + 1))
        /\ { ToSet(Ev.cands[k].u) : k \in 1..Len(Ev.cands) } = UChoices          \* every choice was tried
        /\ Len(Ev.cands) = Cardinality({ A \in UChoices : AuditorStartHash({ M.el[a] : a \in A }) = Root }) * nIns
                            + Cardinality({ A \in UChoices : AuditorStartHash({ M.el[a] : a \in A }) # Root })
        /\ Ev.dup_verdict \in {"n/a", "false"}
  /\ Same

TNext == TTree \/ TMem \/ TNonMem \/ TAuditStep \/ TAuditor

Track == TLCSet(1, IF pos > TLCGet(1) THEN pos ELSE TLCGet(1))

Accepted ==
  LET reached == TLCGet(1) IN
  IF reached = Len(Rec) + 1
    THEN PrintT(<<"TRACE-ACCEPTED", Len(Rec)>>)
    ELSE /\ PrintT(<<"TRACE-REJECTED", reached, ToJson(Rec[reached])>>)
         /\ FALSE
=============================================================================
