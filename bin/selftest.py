#!/usr/bin/env python3
"""bin/selftest.py [--cases a,b,...] [--todo] [--report]

Applies stored breakages (reverted repairs in seeded/fix-reverts, seeded changes in seeded/<id>/) to /repo in turn
(git -C /repo apply), runs the quick checks named for each, restores /repo straight afterwards, and records one line per
case in seeded/results.jsonl (case, result, rows, /repo HEAD, /verif HEAD, time). seeded/RESULTS.md is regenerated from
that file after every case, so an interrupted run loses nothing. A breakage counts as caught when at least one named check
prints a VIOLATION line; a tool error (exit 2) is reported as such, never as caught or missed.
  --cases   only these cases (names as in RESULTS.md: 'revert-<commit>' or a seeded directory name)
  --todo    only cases that have no result yet for the current /repo HEAD
  --report  only regenerate RESULTS.md
Never leaves /repo modified (git checkout at the end of every case)."""
import json, os, subprocess, sys, glob, time

VERIF = "/verif"
RESULTS = f"{VERIF}/seeded/results.jsonl"
REVERTS = {
    "79238dd": ["C05", "C06", "C07"], "e5830d7": ["C05"], "ee30611": ["C09"], "c04d532": ["C16", "C10"], "ca6c5cb": ["C10"],
    "18a7051": ["C13"], "dda5d32": ["C13"], "703fb0a": ["C15"], "f8af41b": ["C15"], "f96eb56": ["C12"], "5436b88": ["C16", "C13"],
    "d3b0444": ["C13"],
}

def sh(cmd, **kw):
    return subprocess.run(cmd, shell=True, capture_output=True, text=True, **kw)

def head(path):
    return sh(f"git -C {path} rev-parse --short HEAD").stdout.strip()

def run_case(name, patch, checks):
    if sh("git -C /repo diff --quiet").returncode != 0:
        return "SKIPPED (/repo dirty)", []
    if sh(f"git -C /repo apply {patch}").returncode != 0:
        return "patch does not apply at the current HEAD", []
    rows = []
    try:
        for c in checks:
            t0 = time.time()
            # the evidence file must keep describing the unchanged tree: set it aside and put it back afterwards
            ev, bak = f"{VERIF}/evidence/{c}.json", f"{VERIF}/work/evidence_{c}.json.bak"
            if os.path.exists(ev):
                os.makedirs(f"{VERIF}/work", exist_ok=True)
                os.replace(ev, bak)
            try:
                p = sh(f"cd {VERIF} && VERIF_TIER=quick bin/check {c}")
            finally:
                if os.path.exists(bak):
                    os.replace(bak, ev)
            viol = [l for l in p.stdout.splitlines() if l.startswith("VIOLATION")]
            rows.append([c, p.returncode, len(viol), round(time.time() - t0)])
            if viol:
                break
    finally:
        sh("git -C /repo checkout -- . && git -C /repo clean -fdq -- akd akd_core")
    caught = [r for r in rows if r[2] > 0]
    if caught:
        return "caught by " + caught[0][0], rows
    if any(r[1] == 2 for r in rows):
        return "TOOL ERROR (no verdict)", rows
    return "MISSED", rows

def all_cases():
    cases = []
    for c, checks in REVERTS.items():
        cases.append((f"revert-{c}", f"{VERIF}/seeded/fix-reverts/revert_{c}.diff", checks))
    # second-round seeds (C/D) first, then the first round: the later a seed was made, the fewer checks it has seen
    for d in sorted(glob.glob(f"{VERIF}/seeded/C*"), key=lambda d: (d[-1] in "AB", d)):
        meta = json.load(open(f"{d}/meta.json"))
        patch = f"{d}/patch_rebased.diff" if os.path.exists(f"{d}/patch_rebased.diff") else f"{d}/patch.diff"
        cases.append((os.path.basename(d), patch, meta["checks_run"]))
    return cases

def load_results():
    res = {}
    if os.path.exists(RESULTS):
        for l in open(RESULTS):
            if l.strip():
                r = json.loads(l)
                res[r["case"]] = r          # the latest line per case wins
    return res

def report():
    res = load_results()
    out = ["# Self-test: stored breakages against the quick checks", "",
           "Each case: `git -C /repo apply <patch>`, the named quick checks, `git -C /repo checkout -- .`. Latest result per case",
           "(bin/selftest.py; raw lines in results.jsonl).", "",
           "| Breakage | Result | Checks run (exit code, VIOLATION lines, seconds) | /repo HEAD | /verif HEAD |", "|---|---|---|---|---|"]
    for name, _, _ in all_cases():
        r = res.get(name)
        if not r:
            meta = f"{VERIF}/seeded/{name}/meta.json"
            det = json.load(open(meta)).get("detection", "") if os.path.exists(meta) else ""
            out.append(f"| {name} | (not re-run at this HEAD; when stored: {det}) | | | |")
            continue
        rows = "; ".join(f"{c}: rc={rc}, {v} violations, {s}s" for c, rc, v, s in r["rows"])
        out.append(f"| {name} | {r['result']} | {rows} | {r['repo_head']} | {r['verif_head']} |")
    open(f"{VERIF}/seeded/RESULTS.md", "w").write("\n".join(out) + "\n")

def main():
    if "--report" in sys.argv:
        report(); return
    only = sys.argv[sys.argv.index("--cases") + 1].split(",") if "--cases" in sys.argv else None
    todo = "--todo" in sys.argv
    have = load_results()
    rh = head("/repo")
    for name, patch, checks in all_cases():
        if only and name not in only:
            continue
        if todo and name in have and have[name]["repo_head"] == rh and not have[name]["result"].startswith(("TOOL", "SKIPPED")):
            continue
        result, rows = run_case(name, patch, checks)
        rec = {"case": name, "result": result, "rows": rows, "repo_head": rh, "verif_head": head(VERIF), "at": time.strftime("%Y-%m-%dT%H:%M:%SZ", time.gmtime())}
        with open(RESULTS, "a") as f:
            f.write(json.dumps(rec) + "\n")
        print(f"{name}: {result} {rows}", flush=True)
        report()

main()
