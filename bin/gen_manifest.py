#!/usr/bin/env python3
"""Regenerates /verif/MANIFEST.json from the table below (one entry per claimed property)."""
import json, os

ALL = [f"C{i:02d}" for i in range(1, 21)]

BASE_NOTE = ("Assumes hash collision resistance and VRF uniqueness (symbolic cryptography in the specifications), "
             "the bounds of the named TLC configurations, and akd's in-memory database behind the harness wrapper.")

CLAIMS = {
    "C01": dict(cat="model_checking", design="5/C01", technique="TLA+ spec AkdDirectory + TLC bounded model checking; every transition replayed on the real Directory; traces validated by TLC (TraceDirectory) incl. reference-hash and leaf-set binding",
        text="TLC enumerates every publish history of the bounded AkdDirectory model (2-3 labels, 2 values, 3-4 epochs, all batches of <= 2 pairs incl. repeated labels, no-ops, tombstones) and checks epoch = effective publishes, the leaf-set shape and append-only growth; every explored transition is replayed on a real Directory under both configurations and TLC validates outcome, epoch, 'returned digest = independent reference hash of the real leaves' and 'real leaves = Leaves(state)', and that the digest is an injective function of the committed history across all replays."),
    "C02": dict(cat="model_checking", design="5/C02", technique="TLA+ spec AkdDirectory + TLC; replay on real Directory; lookup proofs verified by akd's client verifier; results validated by TLC trace validation",
        text="For every reachable state of the bounded model (each reached by replay on the real Directory) every label's lookup and batch lookup is verified with lookup_verify and TLC requires the verified (value, version, epoch) and the returned (epoch, root) pair to equal the specification's; TLC also proves that on every honest leaf set exactly the latest version satisfies the lookup verifier's three conditions."),
    "C03": dict(cat="model_checking", design="5/C03", technique="TLA+ spec AkdDirectory + TLC; replay on real Directory; history proofs verified by akd's client verifier for Complete and every MostRecent(N); validated by TLC trace validation",
        text="For every reachable state of the bounded model, key_history with Complete and MostRecent(1..total+1) is verified with key_history_verify under the same parameter (both verification modes) and TLC requires the verified list to equal HistoryOut(state, parameter)."),
    "C04": dict(cat="model_checking", design="5/C04", technique="TLA+ spec AkdDirectory + TLC; replay on real Directory; audit proofs for all epoch pairs verified by akd's auditor against the published digests; validated by TLC trace validation",
        text="For every reachable state of the bounded model, audit(s,e) for all pairs 0 <= s < e <= epoch is verified by audit_verify against the digests the publishes returned (which C01 ties to the reference hash), and out-of-range requests must be refused; TLC validates every outcome against AuditDefined and the published root chain."),
    "C20": dict(cat="model_checking", design="5/C20", technique="TLA+ spec AkdDirectory (Tombstone action) + TLC; replay through StorageManager::tombstone_value_states; full sweep validated by TLC trace validation",
        text="TLC explores Tombstone(label, cut) for every cut-off before the label's latest update interleaved with publishes and proves the committed leaf set never changes; the replays run the full observation sweep (epoch hash, lookups, histories in both modes with all parameters, all audits, further publishes) and TLC validates that nothing committed changed, AllowMissingValues reports the same versions/epochs with empty values, and Default rejects exactly the histories containing a tombstoned entry."),
    "C05": dict(cat="model_checking", design="5/C05", technique="TLA+ spec AkdTrie (transcribed insertion, proof generation, verifiers) + TLC over all leaf subsets in the bound; adversarial prover replayed with real node records against akd's verifiers; verdict sets validated by TLC (TraceTrie)",
        text="TLC enumerates every leaf subset of the depth-3 universe within the bound and proves MemComplete, NonMemComplete, MemSound and NonMemSound of the transcribed verifiers against an adversary that uses every tree node as claimed anchor with altered children, siblings, directions, hashes, paths and labels; each tree is rebuilt with the real Azks over stretched 256-bit labels, every candidate is given to the real verify_membership / verify_nonmembership, and TLC validates that the set of accepted candidates equals the specification's and proves nothing false."),
    "C09": dict(cat="model_checking", design="5/C09", technique="TLA+ spec AkdTrie (auditor rebuild transcribed) + TLC over all small trees x adversarial (unchanged, inserted) sets; replay against the real verify_consecutive_append_only / audit_verify; validated by TLC (TraceTrie, TraceDirectory)",
        text="TLC proves AuditSound (accepted => every leaf committed by the start hash is still committed by the end hash) for every depth-3 tree with <= 3 leaves and every adversarial proof assembled from its real nodes and arbitrary inserted elements (shadowing, extending, duplicated, overlapping labels), with the end hash chosen by the server; every candidate is run through the real auditor and TLC validates verdict, surviving nodes and soundness; inconsistent hash/epoch/proof lists and replaced digests are replayed on honest proofs and must be rejected."),
    "C17": dict(cat="model_checking", design="5/C17", technique="TLA+ spec AkdLabels (bit-string semantics) + TLC proving its algebraic laws exhaustively on small domains; all real NodeLabel / AzksElementSet results on stretched labels validated by TLC (TraceLabels)",
        text="AkdLabels is the bit-string meaning; TLC proves its laws for all labels <= 6 bits and all small sets, and validates the recorded results of the real is_prefix_of, get_longest_common_prefix, get_prefix, get_prefix_ordering, cmp for all pairs of labels <= 6 model bits under 10-40 stretch maps (real lengths 0..256 around every byte boundary, adversarial fillers, garbage beyond label_len) and of AzksElementSet partition / common prefix / contains_prefix in both representations for all small sets."),
    "C15": dict(cat="model_checking", design="5/C15", technique="TLA+ spec AkdStorage (manager, transaction, database user-state queries transcribed) + TLC; explored operation sequences replayed on the real StorageManager; every read validated by TLC (TraceStorage)",
        text="TLC explores all well-formed sequences of set / batch_set / begin / commit / rollback / tombstone / rejected writes within the bound and proves that inside a transaction every read (get, batch get, user data, user state under each retrieval flag, bulk versions for every user subset) equals the same read on the committed state; the transitions are replayed on a real StorageManager and TLC validates every recorded answer against the specification and against the post-commit read, and that the commit hands the database exactly the pending records with the epoch record last."),
    "C16": dict(cat="model_checking", design="5/C16", technique="TLA+ spec AkdStorage with cache, expiry (Tick), eviction (Pressure), rejected writes and flush + TLC (CacheTransparent); replay on real cached managers with real sleeps; every read validated by TLC against the cache-free state (TraceStorage)",
        text="TLC proves CacheTransparent (a read through the manager returns the pending transaction value or what the database holds) in every reachable state of the cached manager model including expiry, memory-pressure eviction, disabled cleaning, rejected database writes and flushes; explored behaviours are replayed on real managers with default, 2 ms-lifetime and 300-byte caches with the full query sweep after every step, and TLC validates every read against the cache-free specification state and get_direct against the database."),
    "C11": dict(cat="model_checking", design="5/C11", technique="TLA+ spec AkdTrie: TLC proves CrashSubsets (every subset of every commit's record writes) and OldViewIntact; real commit batches captured through the Database wrapper, every prefix and sampled subsets applied to database copies observed through a ReadOnlyDirectory; observations validated by TLC (TraceDirectory)",
        text="TLC proves on the trie model that every subset of every commit's record writes (epoch record excluded) leaves the previous epoch's view identical; on the real code the commit batch of the last publish of every replayed behaviour is captured, every prefix and seeded random subsets are applied to deep copies of the database, a second (read-only) instance is opened on each and its complete sweep is validated by TLC against the state before the publish, then against the new state once the epoch record is written."),
    "C14": dict(cat="model_checking", design="5/C14", technique="one TLA+ spec (AkdDirectory) validates the traces of every configuration cell and both compile-feature builds in a single TLC run per history group (digest memo); TLC proves sub-batch/order independence on AkdTrie; split/permuted real insertions validated by TraceTrie",
        text="The specification has no configuration: every output is a function of the history. The same TLC-generated histories are replayed under the parallelism x cache x restart/read-only matrix, both hashing configurations and two harness binaries (with and without greedy_lookup_preload/preload_history/parallel_vrf); all cells of a history are validated in one TLC run whose memo forces identical digests; TLC proves OrderIndependence of batch insertion and every bounded tree is rebuilt from random sub-batch splits with varying parallelism and validated against the canonical table."),
    "C10": dict(cat="model_checking", design="5/C10", technique="TLA+ spec AkdConcurrent (publish at storage-operation granularity with a fault budget) + TLC (AtomicFailure); exhaustive fault enumeration over the real operation sequence through the Database wrapper; outcomes and follow-up observations validated by TLC (TraceDirectory)",
        text="TLC proves on AkdConcurrent that a publish in which any one storage operation fails returns an error with database, cache view and transaction state unchanged (and refutes the pinned root-hash-after-commit variant); on the real code every storage operation k of the last publish of sampled TLC-generated histories is made to fail in turn (cached / uncached, sequential / parallel insertion) and TLC validates the error return, the unchanged state seen by the same and by a fresh instance, no transaction left open, and that the retry reaches the state of a publish that never failed.",
        note=BASE_NOTE + " Faults are Connection errors at storage-operation granularity; the commit batch fails or succeeds as a whole."),
    "C12": dict(cat="model_checking", design="5/C12", technique="TLA+ spec AkdConcurrent + TLC over all interleavings of 2-3 publishers at storage-operation granularity; TLC-exported interleavings, bounded-preemption and random schedules executed on the real code through a storage-operation gate; call results validated by TLC against the serial specification (TraceDirectory)",
        text="TLC checks on AkdConcurrent, for all interleavings of two (and three, cached) publishers, that effective calls get distinct consecutive epochs, every returned (epoch, root) pair stays the published pair, the final state is the serial application and no transaction stays open, and refutes each pinned switch; the exported interleavings plus all two-preemption schedules and random three-publisher schedules are executed on clones of a real Directory under the harness's gate and TLC validates the call results and the final sweep against the serial AkdDirectory specification.",
        note=BASE_NOTE + " Interleavings are explored at storage-operation granularity on a single-threaded runtime."),
    "C13": dict(cat="model_checking", design="5/C13", technique="TLA+ spec AkdConcurrent (local and remote lagging readers, poller, faults) + TLC (AnswersArePublished); lagging second instances and gate-scheduled overlapping requests on the real code, every answer verified by akd's verifiers and validated by TLC (TraceDirectory, results as of the answered epoch)",
        text="TLC checks that every reader answer is an error or names a really published (epoch, root) pair assembled only from node versions as of that epoch, over all interleavings of publishers, local readers, a remote reader lagging 0-2 epochs, the poller and one fault, and refutes the pinned unchecked-previous-version switch; on the real code a second cached instance is read after storage moved on by 1-3 epochs (with the real change poller run at different points) and lookups / histories / audits / epoch hashes overlap one or two publishes under TLC-exported and bounded-preemption schedules; TLC validates each verified answer against the specification's state as of the answered epoch, and monotonicity after a notification.",
        note=BASE_NOTE + " Interleavings are explored at storage-operation granularity on a single-threaded runtime."),
    "C06": dict(cat="model_checking", design="5/C06", technique="TLA+ spec AkdProofGame (lookup verifier at leaf-set abstraction) + TLC (LookupOnlyLatest on all honest states); adversarial lookup proofs assembled from real material (every claim of the grid, shallow-anchor absences, mixed labels, old epochs) verified by akd's lookup_verify; verdicts validated by TLC (TraceDirectory)",
        text="TLC proves that on every reachable honest leaf set only the latest (value, version, epoch) of a label satisfies the lookup verifier's conditions; after every step of sampled TLC-generated histories an adversarial server holding the key assembles lookup proofs for every claim of versions 1..latest+1 x values x epochs, serves superseded versions with absence proofs anchored at every ancestor, swaps sub-proofs with another label's, uses wrong markers, versions beyond the epoch and proofs of earlier epochs; TLC requires the real verdict to equal the specification's and every accepted claim to be the latest one."),
    "C07": dict(cat="model_checking", design="5/C07", technique="TLA+ spec AkdProofGame (history verifier at leaf-set abstraction, AkdMarkers) + TLC (HistoryOnlyTruth over all claim lists, parameters and modes); adversarial history proofs from real material verified by akd's key_history_verify, incl. trees with missing/late stale markers; verdicts validated by TLC",
        text="TLC proves HistoryOnlyTruth on every reachable honest state for every list of consecutive versions with any values and epochs, every parameter and both verification modes (one exemption, recorded as known finding, whose un-exempted form TLC refutes); the adversarial server replays truncations (with shallow-anchor absences of hidden versions), removals, duplicates, swaps, altered values and epochs, tombstone substitutions, invented versions and short/long marker lists after every step of sampled histories and on trees that retire a version late or never; the real verdict must equal the specification's."),
    "C08": dict(cat="model_checking", design="5/C08", technique="TLA+ spec AkdMarkers (get_marker_versions transcribed) + TLC: shape and history/history agreement for all (E, n), export of the lookup/history gap set; real get_marker_versions validated triple by triple (TraceMarkers); dishonest trees built with the real Azks, all candidate proofs verified by akd's verifiers and validated by TLC; cross-proof agreement judged against the exported gap set",
        text="TLC checks the marker algebra exhaustively up to the bound (history proofs ending at different versions always contradict each other; n+1 is always a future marker) and exports exactly the (epoch, n, m) triples where a lookup for m > n touches no future marker of n - the known finding; the real get_marker_versions equals the transcription on all triples up to the bound; on dishonest trees with extra fresh versions every history range and lookup is built from real material, TLC validates each real verdict, and any two accepted proofs with different latest versions are a VIOLATION unless they are a (complete history, lookup) pair inside the exported gap set (printed as KNOWN-FINDING)."),
}

def main():
    checks = []
    for pid in ALL:
        if pid not in CLAIMS:
            continue
        c = CLAIMS[pid]
        checks.append({
            "property_id": pid,
            "quick_cmd": f"VERIF_TIER=quick bin/check {pid}",
            "thorough_cmd": f"VERIF_TIER=thorough bin/check {pid}",
            "evidence_file": f"/verif/evidence/{pid}.json",
            "replay_cmd_template": "bin/check replay {path}",
            "engine": "tlc+akdv",
            "level_claimed": {"category": c["cat"], "text": c["text"], "design_ref": f"DESIGN.md section {c['design']}"},
            "level_note": c.get("note", BASE_NOTE),
            "technique": c["technique"],
        })
    na = []
    reasons = json.load(open("/verif/bin/not_applicable.json")) if os.path.exists("/verif/bin/not_applicable.json") else {}
    for pid in ALL:
        if pid not in CLAIMS:
            na.append({"property_id": pid, "reason": reasons.get(pid, "check not built yet in this revision of /verif (planned, see DESIGN.md section 5)")})
    m = {
        "version": 1,
        "setup_cmd": "cd /verif/harness && CARGO_NET_OFFLINE=true cargo build --release --offline && CARGO_NET_OFFLINE=true cargo build --release --offline --no-default-features --target-dir target-plain && cd /verif/spec && for f in *.tla; do tla-sany $f > /dev/null || exit 1; done",
        "hooks": {
            "guard": "facebook_akd_verif",
            "enable": "--cfg facebook_akd_verif via /verif/harness/.cargo/config.toml rustflags (harness builds /repo/akd and /repo/akd_core as path dependencies)",
            "baseline_off_cmd": "cd /repo/$(cat /w/out/cargo_root.txt) && cargo nextest run --workspace --no-fail-fast --tool-config-file pb:/w/lib/nextest.toml --profile pb --test-threads 8 --offline",
            "source_commits": ["0933e2d"],
            "add_only": True,
        },
        "engines": [
            {"name": "tlc", "path": "/verif/spec", "serves_properties": sorted(CLAIMS), "kind_free_text": "TLA+ specifications model-checked with TLC; the same modules validate recorded traces (Trace*.tla)"},
            {"name": "akdv", "path": "/verif/harness", "serves_properties": sorted(CLAIMS), "kind_free_text": "Rust conformance harness: replays TLC-generated behaviours on facebook/akd and records ndjson traces"},
        ],
        "checks": checks,
        "notes": "Driver: /verif/bin/check <ID>; design in /verif/DESIGN.md; known findings in /verif/known_findings.jsonl.",
        "not_applicable": na,
    }
    with open("/verif/MANIFEST.json", "w") as f:
        json.dump(m, f, indent=1)
    print(f"MANIFEST.json: {len(checks)} checks, {len(na)} not_applicable")

main()
