"""Concurrency / fault properties decided with AkdConcurrent.tla (design level, TLC) and bound to the code through
TraceDirectory.tla (call level): C10 (failed publish has no effect), C12 (concurrent publishes serialize),
C13 (answers name published pairs, lagging or overlapping readers)."""
import json, os, random
from vlib import *
import props_dir

def run_conc_mc(chk, cfg, expect_violation=False, workers=8):
    res = run_tlc_mc("MCConcurrent", cfg, chk.wd, workers=workers, timeout=1500, heap="8g")
    chk.add_mc(res)
    if expect_violation:
        if not res["violation"]:
            raise ToolError(f"vacuity guard: TLC did not refute the pinned behaviour in {cfg}")
    elif res["violation"]:
        chk.violation(f"TLC: design-level violation in {cfg}: {res['violation'][:300]}", {"tlc_output": res["out"]})
    log(f"[mc] {cfg}: {res['distinct']} distinct states, {res['generated']} transitions{' (refuted, as expected)' if expect_violation else ''}")
    return res

def c10():
    chk = Check("C10", "model_checking")
    run_conc_mc(chk, "MCConcurrent_fault1.cfg")
    run_conc_mc(chk, "MCConcurrent_fault1nc.cfg")
    run_conc_mc(chk, "MCConcurrent_fault1_pinned.cfg", expect_violation=True)
    run_conc_mc(chk, "MCConcurrent_readfault.cfg")
    exported = props_dir.export_behaviours(chk, ["MCDirectory_quick.cfg"])
    def effective_last(steps):
        cur = {}
        for st in steps[:-1]:
            if st["op"] == "publish":
                labs = [p[0] for p in st["batch"]]
                if len(set(labs)) == len(labs):
                    for l, v in st["batch"]:
                        cur[l] = v
        last = steps[-1]
        if last["op"] != "publish":
            return False
        labs = [p[0] for p in last["batch"]]
        return len(set(labs)) == len(labs) and any(cur.get(l) != v for l, v in last["batch"])
    exported = [x for x in exported if x[2] and effective_last(x[2])]
    rnd = random.Random(chk.seed)
    n = 160 if chk.tier == "quick" else 1500
    sample = rnd.sample(exported, min(n, len(exported)))
    cells = [dict(props_dir.DEFAULT_CELL, cache=c, par=p) for (c, p) in [("none", "disabled"), ("default", "disabled"), ("none", "s2"), ("default", "s4")]]
    bs = []
    for i, (labels, values, steps, deep) in enumerate(sample):
        cell = cells[i % len(cells)]
        bs.append({"id": i + 1, "cfg": ["wa", "exp"][i % 2], "conc": i % 3, "cell": cell, "labels": labels, "values": values,
                   "kinds": ["epoch_hash", "lookup", "audit"], "sweep": "end",
                   "steps": steps[:-1] + [dict(steps[-1], op="publish_fault_sweep")]})
    traces = props_dir.run_dir_harness(chk, bs)
    results = validate_traces("TraceDirectory", "TraceDirectory.cfg", traces, chk.wd)
    chk.handle_validation(results)
    faults = 0
    failed_kinds = {}
    seen = set()
    for evs in props_dir.scan_behaviours(traces):
        pf = [e for e in evs if e["ev"] == "publish_fault"]
        faults += len(pf)
        for e in pf:
            failed_kinds[e["failed_op"]] = failed_kinds.get(e["failed_op"], 0) + 1
            if e["res"] == "err":
                seen.add((json.dumps([x for x in evs if x["ev"] == "publish"][:3]), e["k"], evs[0]["cfg"], json.dumps(evs[0]["cell"])))
        if pf and len(chk.cov["samples"]) < 2:
            chk.cov["samples"].append([e for e in evs if e["ev"] in ("reset", "publish", "publish_fault")][:10])
    chk.cov["fault_points_injected"] = faults
    chk.cov["failed_operation_kinds"] = failed_kinds
    chk.cov["distinct_nontrivial"] = len(seen)
    chk.cov["exhaustive"] = False
    chk.cov["rule"] = ("TLC proves AtomicFailure / NoTxnLeftOpen on AkdConcurrent for every storage operation of a publish failing (cached and uncached), "
        "and refutes the pinned variant (root hash read back after the commit). On the real code, for the last publish of each sampled TLC-generated "
        "history, the publish is first run fault-free on a copy to learn its N storage operations and then re-run N times on fresh copies with operation "
        "k = 1..N failing (Connection error), cached and uncached managers, sequential and parallel insertion; after each: sweep on the same instance, "
        "sweep on a fresh instance over the same storage, retry of the publish, sweep; TLC validates: error => nothing changed and no transaction left "
        "open; the retry reaches the state of a publish that never failed. Non-trivial = distinct (history, k, configuration, cell) with an error return.")
    chk.assumptions += ["failures are injected as StorageError::Connection at storage-operation granularity (never NotFound, which the code legitimately treats as absence)",
                        "the commit batch fails or succeeds as a whole (partial commits are C11)"]
    return chk.finish()

TABLE = {"C10": c10}
