CONSTANTS
  D = 3
  MaxEpoch = 3
  MaxLeaves = 8
  Export = FALSE
  MaxU = 3
  MaxI = 2
  PrevEpochChecked = TRUE
  ChildPrefixChecked = TRUE
  PrefixFreeChecked = TRUE
  TopLabelChecked = TRUE
INIT Init
NEXT Next
INVARIANTS StoreIsCanonical RootIsCanonical CommitsToLeaves NumNodesCounted OldViewIntact AuditAllRanges
CHECK_DEADLOCK FALSE
