CONSTANTS
  Labels = {"a", "b"}
  Values = {"x", "y"}
  MaxEpoch = 5
  MaxBatch = 1
  MaxPerEpoch = 1
  Export = TRUE
  WithOther = TRUE
INIT MCInit
NEXT MCNext
VIEW View
INVARIANTS TypeOK EpochCountsEffective LeafShape LookupSoundOnHonest
PROPERTY CommittedOnlyGrows
CHECK_DEADLOCK FALSE
