//! akdv: conformance harness binding the TLA+ specifications in /verif/spec to facebook/akd.

mod common;
mod concdrv;
mod dirdrv;
mod forge;
mod hookdb;
mod labeldrv;
mod markdrv;
mod refhash;
mod stordrv;
mod triedrv;
mod wire;
mod wiredrv;

fn main() {
    let args: Vec<String> = std::env::args().collect();
    let sub = args.get(1).map(|s| s.as_str()).unwrap_or("");
    match sub {
        "dir" => dirdrv::main_dir(&args[2..]),
        "trie" => triedrv::main_trie(&args[2..]),
        "labels" => labeldrv::main_labels(&args[2..]),
        "storage" => stordrv::main_storage(&args[2..]),
        "conc" => concdrv::main_conc(&args[2..]),
        "markers" => markdrv::main_markers(&args[2..]),
        "forge" => forge::main_forge(&args[2..]),
        "wire" => wiredrv::main_wire(&args[2..]),
        other => {
            eprintln!("unknown subcommand {other:?}");
            std::process::exit(2);
        }
    }
}
