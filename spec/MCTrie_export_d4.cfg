CONSTANTS
  D = 4
  MaxEpoch = 2
  MaxLeaves = 3
  Export = TRUE
  MaxU = 3
  MaxI = 2
  PrevEpochChecked = TRUE
  ChildPrefixChecked = TRUE
  PrefixFreeChecked = TRUE
  TopLabelChecked = TRUE
INIT Init
NEXT Next
INVARIANTS ExportState MemComplete NonMemComplete MemSound NonMemSound
CHECK_DEADLOCK FALSE
