CONSTANTS
  Users = {"u"}
  Epochs = {1, 2}
  Versions = {1, 2}
  Values = {"p"}
  NodeNames = {"n1"}
  AzksEpochs = {1, 2}
  HasCache = TRUE
  CachePutBeforeDbWrite = FALSE
  BulkVersionsUsesEpoch = FALSE
  FillPolicy = "always"
  FlushIgnoresCleanFlag = TRUE
  FlushBumpsGeneration = TRUE
  Export = FALSE
  MaxSteps = 3
  WithReads = TRUE
  SplitReads = TRUE
  WithExt = FALSE
INIT MCInit
NEXT MCNext
VIEW View
INVARIANTS TypeOK TxnReadsEqualPostCommit CacheTransparent
CHECK_DEADLOCK FALSE
