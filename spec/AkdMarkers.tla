----------------------------- MODULE AkdMarkers -----------------------------
(***************************************************************************)
(* Marker versions (akd_core/src/utils.rs::get_marker_versions), transcribed*)
(* line by line, and the lookup marker 2^floor(log2 v).  A history proof    *)
(* for versions [s..n] at epoch E shows fresh(v) PRESENT for the past       *)
(* markers of s and ABSENT for the future markers of (n, E); a lookup proof *)
(* for version m shows fresh(m) and fresh(Pow2Floor(m)) present and         *)
(* stale(m) absent.  TLC integers are 32-bit, so the skip-list element 2^32 *)
(* is left out: it cannot be reached for epochs below 2^31.                 *)
(***************************************************************************)
EXTENDS Naturals, Sequences, FiniteSets

SkipList == <<1, 2, 4, 16, 256, 65536>>

RECURSIVE Log2Floor(_)
Log2Floor(v) == IF v <= 1 THEN 0 ELSE 1 + Log2Floor(v \div 2)
BitLen(v) == IF v = 0 THEN 0 ELSE Log2Floor(v) + 1
Pow2Floor(v) == 2 ^ Log2Floor(v)
BitAt(v, i) == (v \div (2 ^ i)) % 2

(* find_max_index_in_skiplist: largest index whose element is <= input (1-based here) *)
MaxIndex(v) == CHOOSE i \in 1..Len(SkipList) : SkipList[i] <= v /\ (i = Len(SkipList) \/ SkipList[i + 1] > v)

LastOr0(s) == IF Len(s) = 0 THEN 0 ELSE s[Len(s)]
AppendNew(s, x) == IF x # 0 /\ (Len(s) = 0 \/ x # s[Len(s)]) THEN Append(s, x) ELSE s

RECURSIVE PastBits(_, _, _)
PastBits(start, i, acc) ==        \* i runs from BitLen(start) - 1 down to 0
  IF i < 0 THEN acc
  ELSE LET acc2 == IF BitAt(start, i) = 1
                     THEN AppendNew(acc, (start \div (2 ^ (i + 1))) * (2 ^ (i + 1)))
                     ELSE acc
       IN IF i = 0 THEN acc2 ELSE PastBits(start, i - 1, acc2)

PastMarkers(start) ==
  LET sk == SkipList[MaxIndex(start)]
      p1 == IF sk # start THEN <<sk>> ELSE <<>>
      lg == Pow2Floor(start)
      p2 == IF lg # start /\ (Len(p1) = 0 \/ lg # p1[Len(p1)]) THEN Append(p1, lg) ELSE p1
  IN PastBits(start, BitLen(start) - 1, p2)

RECURSIVE FutureBits(_, _, _, _)
FutureBits(end, epoch, i, acc) ==      \* i runs from 0 to BitLen(end) - 1
  IF i >= BitLen(end) THEN acc
  ELSE LET fv == ((end \div (2 ^ i)) + 1) * (2 ^ i)
           acc2 == IF BitAt(end, i) = 0 /\ fv <= epoch THEN Append(acc, fv) ELSE acc
       IN FutureBits(end, epoch, i + 1, acc2)

RECURSIVE FuturePows(_, _, _, _)
FuturePows(i, final, slice, acc) ==
  IF i > final THEN acc
  ELSE IF Len(slice) > 0 /\ 2 ^ i >= slice[1] THEN acc
  ELSE FuturePows(i + 1, final, slice, Append(acc, 2 ^ i))

FutureMarkers(end, epoch) ==
  LET a == FutureBits(end, epoch, 0, <<>>)
      slice == SubSeq(SkipList, MaxIndex(end) + 1, MaxIndex(epoch))
      b == FuturePows(Log2Floor(end) + 1, Log2Floor(epoch), slice, a)
  IN b \o slice

MarkerVersions(start, end, epoch) == << PastMarkers(start), FutureMarkers(end, epoch) >>

SeqSet(s) == { s[i] : i \in 1..Len(s) }

---------------------------------------------------------------------------
(* documented shape *)
Sorted(s) == \A i \in 1..(Len(s) - 1) : s[i] < s[i + 1]
ShapeOK(start, end, epoch) ==
  LET mv == MarkerVersions(start, end, epoch) IN
  /\ Sorted(mv[1]) /\ Sorted(mv[2])
  /\ \A v \in SeqSet(mv[1]) : v >= 1 /\ v < start
  /\ \A v \in SeqSet(mv[2]) : v > end /\ v <= epoch
  /\ (end + 1 <= epoch) => (end + 1) \in SeqSet(mv[2])        \* the defence C07 relies on

(* what a history proof for [s..n] at E commits to: present / absent fresh versions *)
HistPresent(s, n) == SeqSet(PastMarkers(s)) \cup (s..n)
HistAbsent(n, E) == SeqSet(FutureMarkers(n, E))
LookupPresent(m) == { m, Pow2Floor(m) }

(* C08, history against history: two accepted proofs cannot end at different versions n < m *)
HistHistAgreeFor(E, n) ==
  \A m \in (n + 1)..E : \A s2 \in 1..m : HistPresent(s2, m) \cap HistAbsent(n, E) # {}

(* C08, complete history (latest n) against lookup (version m), m > n: the lookup's present set   *)
(* must hit the history's absent set.  This FAILS for the triples of the known finding.            *)
LookupHistGap(E, n, m) == n < m /\ m <= E /\ LookupPresent(m) \cap HistAbsent(n, E) = {}
=============================================================================
