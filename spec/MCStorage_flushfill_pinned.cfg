CONSTANTS
  Users = {}
  Epochs = {1}
  Versions = {1, 2}
  Values = {"p"}
  NodeNames = {"n1"}
  AzksEpochs = {1, 2}
  HasCache = TRUE
  CachePutBeforeDbWrite = FALSE
  BulkVersionsUsesEpoch = FALSE
  FillPolicy = "if_same_generation"
  FlushIgnoresCleanFlag = TRUE
  FlushBumpsGeneration = FALSE
  Export = FALSE
  MaxSteps = 4
  WithReads = TRUE
  SplitReads = TRUE
  WithExt = TRUE
INIT MCInit
NEXT MCNext
VIEW View
INVARIANTS TypeOK CacheTransparent
CHECK_DEADLOCK FALSE
